#!/usr/bin/env python3
"""developer aid: list the lambdas (pre-order ordinal, source line, captures) inside a function
   usage: lslambdas.py '<tu text>' <qualified function name> [defines...]"""
import sys, os
sys.path.insert(0, os.path.dirname(os.path.abspath(__file__)))
from astload import load_ast
from cxx2c import Lowerer, Index
import lower_ext
tu, q = sys.argv[1], sys.argv[2]
defs = sys.argv[3:] or ['-DMANIFOLD_PAR=-1']
root = load_ast(tu, defs)
L = Lowerer(root, spec={'unit': 'x', 'targets': []})
for n in L.idx.funcs.get(q, []):
    if not Index.has_body(n) or n['id'] in L.idx.pattern:
        continue
    print('function', q, n['type']['qualType'], 'line', n.get('loc', {}).get('line'))
    ls = []
    lower_ext.find_all(n, 'LambdaExpr', ls)
    seen = set(); k = 0
    for l in ls:
        key = (l['range']['begin'].get('offset'), l['range']['end'].get('offset'))
        if key in seen: continue
        seen.add(key)
        rec = l['inner'][0]
        caps = [c['name'] if 'name' in c else 'this' for c in rec['inner'] if c.get('kind') == 'FieldDecl']
        call = [c for c in rec['inner'] if c.get('name') == 'operator()']
        print('  #%d line %s type %s captures %s' % (k, l['range']['begin'].get('line'), call[0].get('type', {}).get('qualType') if call else '?', caps))
        k += 1
