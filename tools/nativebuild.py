#!/usr/bin/env python3
"""Build /repo's current working tree natively (static lib, ASan+UBSan, serial
back end, guard MANIFOLD_VERIF on) for the replay / differential drivers.
Object files are cached per source-content hash under BUILD/native."""
import os, sys, subprocess, hashlib, glob, concurrent.futures as cf
sys.path.insert(0, os.path.dirname(os.path.abspath(__file__)))
from astload import REPO, BUILD, InfraError

CXX = 'g++'
SAN = ['-fsanitize=address,undefined', '-fno-sanitize-recover=undefined', '-fno-omit-frame-pointer']
BASEFLAGS = ['-std=c++17', '-O1', '-g0', '-DMANIFOLD_PAR=-1', '-DMANIFOLD_VERIF', '-ffp-contract=off',
             '-I%s/src' % REPO, '-I%s/include' % REPO, '-w']


def _hdr_hash():
    h = hashlib.sha1()
    for f in sorted(glob.glob(REPO + '/src/*.h') + glob.glob(REPO + '/include/manifold/*.h')):
        h.update(open(f, 'rb').read())
    return h.hexdigest()


def build_lib(sanitize=True):
    flags = BASEFLAGS + (SAN if sanitize else [])
    hh = _hdr_hash()
    outdir = os.path.join(BUILD, 'native', 'san' if sanitize else 'plain')
    os.makedirs(outdir, exist_ok=True)
    srcs = sorted(glob.glob(REPO + '/src/*.cpp'))
    objs, todo = [], []
    for s in srcs:
        k = hashlib.sha1((hh + ' '.join(flags)).encode() + open(s, 'rb').read()).hexdigest()[:16]
        o = os.path.join(outdir, os.path.basename(s)[:-4] + '.' + k + '.o')
        objs.append(o)
        if not os.path.exists(o):
            todo.append((s, o))

    def cc(so):
        s, o = so
        tmp = o + '.%d.tmp' % os.getpid()
        r = subprocess.run([CXX] + flags + ['-c', s, '-o', tmp], capture_output=True, text=True)
        if r.returncode != 0:
            raise InfraError('native compile of %s failed: %s' % (s, r.stderr[-2000:]))
        os.replace(tmp, o)
    with cf.ThreadPoolExecutor(max_workers=os.cpu_count() or 8) as ex:
        list(ex.map(cc, todo))
    # drop stale objects
    for f in glob.glob(outdir + '/*.o'):
        if f not in objs:
            os.remove(f)
    lib = os.path.join(outdir, 'libmanifold_%s.a' % hashlib.sha1(' '.join(objs).encode()).hexdigest()[:12])
    if not os.path.exists(lib):
        for f in glob.glob(outdir + '/libmanifold_*.a'):
            os.remove(f)
        r = subprocess.run(['ar', 'rcs', lib] + objs, capture_output=True, text=True)
        if r.returncode != 0:
            raise InfraError('ar failed: ' + r.stderr)
    return lib, flags


def build_driver(src, out, sanitize=True, link_lib=True, extra=()):
    lib, flags = build_lib(sanitize) if link_lib else (None, BASEFLAGS + (SAN if sanitize else []))
    deps = open(src, 'rb').read()
    k = hashlib.sha1(deps + _hdr_hash().encode() + (lib or '').encode() + ' '.join(extra).encode()).hexdigest()[:16]
    exe = out + '.' + k
    if not os.path.exists(exe):
        for f in glob.glob(out + '.*'):
            try:
                os.remove(f)
            except OSError:
                pass
        cmd = [CXX] + flags + list(extra) + ['-I' + os.path.dirname(src), src] + ([lib] if lib else []) + ['-o', exe + '.tmp', '-lpthread']
        r = subprocess.run(cmd, capture_output=True, text=True)
        if r.returncode != 0:
            raise InfraError('replay driver %s failed to build: %s' % (src, r.stderr[-3000:]))
        os.replace(exe + '.tmp', exe)
    return exe


if __name__ == '__main__':
    import time
    t = time.time()
    print(build_lib(True)[0], time.time() - t)
