#!/usr/bin/env python3
"""thorough-tier, C04 only: bounded native sampling of schedule dependence in a MANIFOLD_PAR=ON build.

Builds the library of the tree under test with the TBB back end (scratch build directory under build/, keyed by the
tree hash), compiles every program in contracts/replay/par/*.cpp against it and runs it; each program computes one
result under several thread counts and repeats, prints one hash per run and exits 1 when the hashes differ.
This is NOT contract verification: it samples schedules.  It exists (a) as the regression guard of finding 11 and
(b) so that a schedule dependence that is known and not repaired is reported as KNOWN-FINDING by a check that can
actually observe it."""
import glob, os, subprocess, sys, shutil, time
sys.path.insert(0, os.path.dirname(os.path.abspath(__file__)))
import astload

VERIF = os.path.dirname(os.path.dirname(os.path.abspath(__file__)))
BUILD = os.environ.get('VERIF_BUILD', os.path.join(VERIF, 'build'))
REPO = astload.REPO


def sh(cmd, timeout, **kw):
    try:
        r = subprocess.run(cmd, capture_output=True, text=True, timeout=timeout, **kw)
        return r.returncode, (r.stdout + r.stderr)
    except subprocess.TimeoutExpired as ex:
        return 124, 'timeout after %ds' % timeout


def cmake_build(bdir, par):
    lib = os.path.join(bdir, 'src', 'libmanifold.so')
    if os.path.exists(lib):
        return None
    os.makedirs(bdir, exist_ok=True)
    rc, log = sh(['cmake', '-G', 'Ninja', '-S', REPO, '-B', bdir, '-DCMAKE_BUILD_TYPE=RelWithDebInfo', '-DCMAKE_CXX_FLAGS=-Wno-error',
                  '-DMANIFOLD_TEST=OFF', '-DMANIFOLD_CBIND=OFF', '-DMANIFOLD_PAR=%s' % ('ON' if par else 'OFF'), '-DFETCHCONTENT_UPDATES_DISCONNECTED=ON'], 600)
    if rc == 0:
        rc, log = sh(['cmake', '--build', bdir, '-j12'], 3000)
    if rc != 0 or not os.path.exists(lib):
        return 'MANIFOLD_PAR=%s build of %s failed: %s' % ('ON' if par else 'OFF', REPO, log[-1500:])
    return None


def run():
    """every program runs twice: linked against a MANIFOLD_PAR=ON build (several thread counts, repeated) and against a
    MANIFOLD_PAR=OFF build made with the same cmake options; `differs` = the PAR runs differ among themselves, or the
    single-thread lines of the two builds differ ("whether the library is built with the parallel backend or serially")"""
    out = {'programs': [], 'infra': None, 'build_s': 0.0}
    key = astload.tree_hash()[:16]
    root = os.path.join(BUILD, 'native_par')
    pdir, sdir = os.path.join(root, key, 'par'), os.path.join(root, key, 'seq')
    t0 = time.time()
    if not os.path.isdir(os.path.join(root, key)):
        shutil.rmtree(root, ignore_errors=True)   # one tree's scratch builds at a time
    for d, par in ((pdir, True), (sdir, False)):
        err = cmake_build(d, par)
        if err:
            out['infra'] = err
            return out
    out['build_s'] = round(time.time() - t0, 1)
    for src in sorted(glob.glob(os.path.join(VERIF, 'contracts', 'replay', 'par', '*.cpp'))):
        name = os.path.basename(src)[:-4]
        runs = {}
        for tag, d, extra in (('par', pdir, ['-ltbb']), ('seq', sdir, ['-DNOTBB'])):
            exe = os.path.join(d, 'probe_' + name)
            rc, log = sh(['g++', '-std=c++17', '-O1', '-I' + os.path.join(REPO, 'include'), src, '-L' + os.path.join(d, 'src'), '-lmanifold',
                          '-Wl,-rpath,' + os.path.join(d, 'src'), '-o', exe] + extra, 600)
            if rc != 0:
                out['infra'] = 'probe %s (%s) failed to build: %s' % (name, tag, log[-1500:])
                return out
            t1 = time.time()
            rc, log = sh([exe], 1800)
            runs[tag] = (rc, log, exe, round(time.time() - t1, 1))
            if rc not in (0, 1):
                out['infra'] = 'probe %s (%s) ended with exit %s: %s' % (name, tag, rc, log[-800:])
        one = lambda log: [l for l in log.splitlines() if l.startswith('threads=1 ')]
        among_par = runs['par'][0] == 1
        par_vs_seq = one(runs['par'][1]) != one(runs['seq'][1]) or runs['seq'][0] == 1
        out['programs'].append({'name': name, 'source': src, 'exit_par': runs['par'][0], 'exit_seq': runs['seq'][0],
                                'differs': bool(among_par or par_vs_seq), 'differs_among_par_runs': among_par, 'differs_par_vs_serial_build': par_vs_seq,
                                'wall_s': runs['par'][3] + runs['seq'][3], 'output': ('== MANIFOLD_PAR=ON\n' + runs['par'][1][-1500:] + '\n== MANIFOLD_PAR=OFF\n' + runs['seq'][1][-1200:]),
                                'cmd': runs['par'][2]})
    return out


if __name__ == '__main__':
    import json
    print(json.dumps(run(), indent=1))
