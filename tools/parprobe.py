#!/usr/bin/env python3
"""thorough-tier, C04 only: bounded native sampling of schedule dependence in a MANIFOLD_PAR=ON build.

Builds the library of the tree under test with the TBB back end (scratch build directory under build/, keyed by the
tree hash), compiles every program in contracts/replay/par/*.cpp against it and runs it; each program computes one
result under several thread counts and repeats, prints one hash per run and exits 1 when the hashes differ.
This is NOT contract verification: it samples schedules.  It exists (a) as the regression guard of finding 11 and
(b) so that a schedule dependence that is known and not repaired is reported as KNOWN-FINDING by a check that can
actually observe it."""
import glob, os, subprocess, sys, shutil, time
sys.path.insert(0, os.path.dirname(os.path.abspath(__file__)))
import astload

VERIF = os.path.dirname(os.path.dirname(os.path.abspath(__file__)))
BUILD = os.environ.get('VERIF_BUILD', os.path.join(VERIF, 'build'))
REPO = astload.REPO


def sh(cmd, timeout, **kw):
    try:
        r = subprocess.run(cmd, capture_output=True, text=True, timeout=timeout, **kw)
        return r.returncode, (r.stdout + r.stderr)
    except subprocess.TimeoutExpired as ex:
        return 124, 'timeout after %ds' % timeout


def run():
    out = {'programs': [], 'infra': None, 'build_s': 0.0}
    key = astload.tree_hash()[:16]
    root = os.path.join(BUILD, 'native_par')
    bdir = os.path.join(root, key)
    lib = os.path.join(bdir, 'src', 'libmanifold.so')
    t0 = time.time()
    if not os.path.exists(lib):
        # one scratch build at a time: older trees' builds are removed
        shutil.rmtree(root, ignore_errors=True)
        os.makedirs(bdir, exist_ok=True)
        rc, log = sh(['cmake', '-G', 'Ninja', '-S', REPO, '-B', bdir, '-DCMAKE_BUILD_TYPE=RelWithDebInfo', '-DCMAKE_CXX_FLAGS=-Wno-error',
                      '-DMANIFOLD_TEST=OFF', '-DMANIFOLD_CBIND=OFF', '-DMANIFOLD_PAR=ON', '-DFETCHCONTENT_UPDATES_DISCONNECTED=ON'], 600)
        if rc == 0:
            rc, log = sh(['cmake', '--build', bdir, '-j12'], 3000)
        if rc != 0 or not os.path.exists(lib):
            out['infra'] = 'MANIFOLD_PAR=ON build of %s failed: %s' % (REPO, log[-1500:])
            return out
    out['build_s'] = round(time.time() - t0, 1)
    for src in sorted(glob.glob(os.path.join(VERIF, 'contracts', 'replay', 'par', '*.cpp'))):
        name = os.path.basename(src)[:-4]
        exe = os.path.join(bdir, 'probe_' + name)
        rc, log = sh(['g++', '-std=c++17', '-O1', '-I' + os.path.join(REPO, 'include'), src, '-L' + os.path.join(bdir, 'src'), '-lmanifold', '-ltbb',
                      '-Wl,-rpath,' + os.path.join(bdir, 'src'), '-o', exe], 600)
        if rc != 0:
            out['infra'] = 'probe %s failed to build: %s' % (name, log[-1500:])
            return out
        t1 = time.time()
        rc, log = sh([exe], 1800)
        out['programs'].append({'name': name, 'source': src, 'exit': rc, 'differs': rc == 1, 'wall_s': round(time.time() - t1, 1),
                                'output': log[-3000:], 'cmd': exe})
        if rc not in (0, 1):
            out['infra'] = 'probe %s ended with exit %s: %s' % (name, rc, log[-800:])
    return out


if __name__ == '__main__':
    import json
    print(json.dumps(run(), indent=1))
