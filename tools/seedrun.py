#!/usr/bin/env python3
"""Seeded-change bookkeeping (DESIGN section 8).

  seedrun.py import  <id>...   copy /tmp/seed_out/<id>/{patch.diff,demo.*,build_demo.sh,notes.md,*.h} to seeded/<id>/
  seedrun.py confirm <id>...   in a scratch worktree: unchanged -> demo passes; patched -> builds, whole ctest passes,
                               demo fails.  Result goes to seeded/<id>/meta.json
  seedrun.py detect  <id>...   run ./check <property> quick against a scratch worktree with the patch applied
                               (VERIF_REPO), record which obligations failed in meta.json

Nothing here touches /repo's working tree; scratch worktrees live under /tmp and are removed at the end."""
import sys, os, json, subprocess, shutil, re, time, glob

VERIF = os.path.dirname(os.path.dirname(os.path.abspath(__file__)))
SEEDED = os.path.join(VERIF, 'seeded')
CMAKE = ['-DCMAKE_BUILD_TYPE=RelWithDebInfo', '-DCMAKE_CXX_FLAGS=-Wno-error', '-DMANIFOLD_TEST=ON', '-DMANIFOLD_CBIND=ON',
         '-DFETCHCONTENT_SOURCE_DIR_GOOGLETEST=/usr/src/googletest', '-DFETCHCONTENT_SOURCE_DIR_GTEST=/usr/src/googletest',
         '-DFETCHCONTENT_TRY_FIND_PACKAGE_MODE=ALWAYS', '-DFETCHCONTENT_UPDATES_DISCONNECTED=ON']


def sh(cmd, **kw):
    return subprocess.run(cmd, shell=isinstance(cmd, str), capture_output=True, text=True, **kw)


def meta_of(sid):
    p = os.path.join(SEEDED, sid, 'meta.json')
    if os.path.exists(p):
        return json.load(open(p))
    return {'id': sid, 'property': sid.split('_')[0]}


def save(sid, m):
    with open(os.path.join(SEEDED, sid, 'meta.json'), 'w') as f:
        json.dump(m, f, indent=1)


def do_import(sid):
    src = os.path.join('/tmp/seed_out', sid)
    dst = os.path.join(SEEDED, sid)
    os.makedirs(dst, exist_ok=True)
    for f in os.listdir(src):
        if f in ('demo', 'scratch') or f.endswith('.log') or os.path.isdir(os.path.join(src, f)):
            continue
        shutil.copy(os.path.join(src, f), os.path.join(dst, f))
    b = os.path.join(dst, 'build_demo.sh')
    if os.path.exists(b):
        t = open(b).read()
        t = t.replace(src, '$SEED_DIR')
        if 'SEED_DIR=' not in t:
            lines = t.split('\n')
            k = 1 if lines and lines[0].startswith('#!') else 0
            lines.insert(k, 'SEED_DIR=$(cd "$(dirname "$0")" && pwd)   # (added on import: the agent wrote its own /tmp path here)')
            t = '\n'.join(lines)
        open(b, 'w').write(t)
        os.chmod(b, 0o755)
    m = meta_of(sid)
    n = os.path.join(dst, 'notes.md')
    m['author'] = 'independent sub-agent given only the property text and a scratch worktree'
    save(sid, m)
    print('imported', sid)


def wt_make(path, par=False):
    sh(['git', '-C', '/repo', 'worktree', 'remove', '--force', path])
    r = sh(['git', '-C', '/repo', 'worktree', 'add', '--detach', path, 'HEAD'])
    if r.returncode:
        raise SystemExit('worktree: ' + r.stderr)


def build(path, bdir='_build', par=False, jobs=10):
    b = os.path.join(path, bdir)
    if not os.path.exists(os.path.join(b, 'build.ninja')):
        r = sh(['cmake', '-G', 'Ninja', '-S', path, '-B', b, '-DMANIFOLD_PAR=%s' % ('ON' if par else 'OFF')] + CMAKE)
        if r.returncode:
            return False, r.stderr[-2000:]
    r = sh(['cmake', '--build', b, '-j%d' % jobs])
    return r.returncode == 0, (r.stdout + r.stderr)[-1500:]


def ctest(path, bdir='_build', jobs=10):
    r = sh(['ctest', '--test-dir', os.path.join(path, bdir), '-j%d' % jobs, '--timeout', '900'])
    m = re.search(r'(\d+)% tests passed, (\d+) tests failed out of (\d+)', r.stdout)
    return (m is not None and m.group(2) == '0'), (m.group(0) if m else r.stdout[-500:])


def demo(sid, path):
    env = dict(os.environ, SEED_OUT='/tmp/seed_demo_out/' + sid)
    os.makedirs(env['SEED_OUT'], exist_ok=True)
    try:
        r = sh(['sh', os.path.join(SEEDED, sid, 'build_demo.sh'), path], env=env, timeout=3600)
        rc, out = r.returncode, (r.stdout + r.stderr)[-1200:]
    except subprocess.TimeoutExpired:
        rc, out = 124, 'demo timed out'
    for f in glob.glob(os.path.join(SEEDED, sid, '*')):
        # binaries built by the demo script next to itself are not kept in /verif
        if os.path.isfile(f) and os.access(f, os.X_OK) and not f.endswith('.sh'):
            os.remove(f)
    return rc, out


def do_confirm(sids):
    wt = '/tmp/wt_confirm_%d' % os.getpid()   # one scratch worktree per invocation: concurrent runs must not share
    wt_make(wt)
    try:
        ok, log = build(wt)
        if not ok:
            raise SystemExit('baseline build failed: ' + log)
        for sid in sids:
            m = meta_of(sid)
            needs_par = 'MANIFOLD_PAR=ON' in open(os.path.join(SEEDED, sid, 'build_demo.sh')).read() or '_build_par' in open(os.path.join(SEEDED, sid, 'build_demo.sh')).read()
            c = {'when': time.strftime('%Y-%m-%d %H:%M'), 'worktree': wt, 'needs_par_build': needs_par}
            if needs_par:
                okp, log = build(wt, '_build_par', par=True)
                c['unchanged_par_build_ok'] = okp
            rc0, out0 = demo(sid, wt)
            c['unchanged_demo_exit'] = rc0
            c['unchanged_demo_tail'] = out0[-400:]
            r = sh(['git', '-C', wt, 'apply', os.path.join(SEEDED, sid, 'patch.diff')])
            c['patch_applies'] = r.returncode == 0
            if r.returncode == 0:
                ok, log = build(wt)
                c['patched_build_ok'] = ok
                if ok:
                    tok, tsum = ctest(wt)
                    c['patched_ctest'] = tsum
                    c['patched_ctest_ok'] = tok
                    if needs_par:
                        okp, log = build(wt, '_build_par', par=True)
                        c['patched_par_build_ok'] = okp
                        if okp:
                            tok2, tsum2 = ctest(wt, '_build_par')
                            c['patched_ctest_par'] = tsum2
                            c['patched_ctest_par_ok'] = tok2
                    rc1, out1 = demo(sid, wt)
                    c['patched_demo_exit'] = rc1
                    c['patched_demo_tail'] = out1[-600:]
                else:
                    c['build_log'] = log
            sh(['git', '-C', wt, 'checkout', '--', '.'])
            build(wt)
            if needs_par:
                build(wt, '_build_par', par=True)
            c['confirmed'] = bool(c.get('patch_applies') and c.get('patched_build_ok') and c.get('patched_ctest_ok')
                                  and c.get('unchanged_demo_exit') == 0 and c.get('patched_demo_exit') not in (0, None)
                                  and (not needs_par or c.get('patched_ctest_par_ok')))
            c['commands'] = ['git worktree add /tmp/wt_confirm_<pid> HEAD; cmake -G Ninja (RelWithDebInfo, MANIFOLD_PAR=OFF, TEST=ON, CBIND=ON); cmake --build',
                             'sh build_demo.sh /tmp/wt_confirm_<pid>   (unchanged: expect exit 0)',
                             'git apply patch.diff; cmake --build; ctest -j10 --timeout 900   (expect all pass)',
                             'sh build_demo.sh /tmp/wt_confirm_<pid>   (patched: expect non-zero exit)']
            m['confirmation'] = c
            save(sid, m)
            print(sid, 'confirmed' if c['confirmed'] else 'NOT CONFIRMED', json.dumps({k: v for k, v in c.items() if k.endswith('_exit') or k.endswith('_ok') or k.startswith('patched_ctest')}))
            sys.stdout.flush()
    finally:
        sh(['git', '-C', '/repo', 'worktree', 'remove', '--force', wt])
        shutil.rmtree('/tmp/seed_demo_out', ignore_errors=True)


def do_detect(sids, props=None, tier='quick'):
    wt = '/tmp/wt_detect_%d' % os.getpid()
    bd = '/tmp/vb_detect_%d' % os.getpid()
    wt_make(wt)
    try:
        for sid in sids:
            m = meta_of(sid)
            r = sh(['git', '-C', wt, 'apply', os.path.join(SEEDED, sid, 'patch.diff')])
            if r.returncode:
                print(sid, 'patch does not apply', r.stderr)
                continue
            out = {}
            for pid in (props or [m['property']]):
                env = dict(os.environ, VERIF_REPO=wt, VERIF_BUILD=bd, VERIF_EVIDENCE=os.path.join(bd, 'ev'))
                t0 = time.time()
                r = sh([os.path.join(VERIF, 'check'), pid, tier], env=env, cwd=VERIF)
                failed = re.findall(r'failed obligation: (\S+) (\S+) \[(\w+)\] (.*)', r.stdout)
                out[pid] = {'exit': r.returncode, 'wall_s': round(time.time() - t0),
                            'violation_lines': len(re.findall(r'(?m)^VIOLATION ', r.stdout)),
                            'failed_obligations': ['%s %s: %s' % (a, b, d) for a, b, c, d in failed][:12],
                            'infra': re.findall(r'(?m)^INFRA: (.*)', r.stdout)[:6]}
            sh(['git', '-C', wt, 'checkout', '--', '.'])
            m['detection'] = {'when': time.strftime('%Y-%m-%d %H:%M'), 'tier': tier,
                              'how': 'patch applied to a scratch worktree, VERIF_REPO=<worktree> ./check <property> %s' % tier,
                              'results': out,
                              'caught': any(v['exit'] == 1 for v in out.values())}
            save(sid, m)
            print(sid, 'CAUGHT' if m['detection']['caught'] else 'missed', json.dumps({k: (v['exit'], v['failed_obligations'][:2], v['infra'][:1]) for k, v in out.items()}))
            sys.stdout.flush()
    finally:
        sh(['git', '-C', '/repo', 'worktree', 'remove', '--force', wt])
        shutil.rmtree(bd, ignore_errors=True)


if __name__ == '__main__':
    cmd, ids = sys.argv[1], sys.argv[2:]
    if cmd == 'import':
        for s in ids:
            do_import(s)
    elif cmd == 'confirm':
        do_confirm(ids)
    elif cmd == 'detect':
        props = None
        if ids and ids[0].startswith('--props='):
            props = ids[0][len('--props='):].split(',')
            ids = ids[1:]
        do_detect(ids, props)
