"""Extensions of the cxx2c subset: lambdas and statement regions as targets,
linalg:: table.  Kept apart so the core printer stays small."""
from cxx2c import Fn, Ty, Unsupported, where, mangle, Index


def install(L):
    L.ext_builtin_call = lambda e, r, obj, args: None
    L.ext_builtin_method = lambda e, me, base, obj, args: None


def request_lambda(L, host, t):
    raise Unsupported('lambda targets not implemented yet')


def request_region(L, host, t):
    raise Unsupported('region targets not implemented yet')
