"""Extensions of the cxx2c subset: lambdas and statement regions as targets.
Kept apart so the core printer stays small."""
from cxx2c import Fn, Ty, Unsupported, where, mangle, Index
from astload import InfraError


def install(L):
    pass


def find_all(n, kind, out):
    if n.get('kind') == kind:
        out.append(n)
    for c in n.get('inner', []):
        if isinstance(c, dict):
            find_all(c, kind, out)


def request_lambda(L, host, t):
    """target = k-th LambdaExpr (pre-order) inside host.  The closure becomes
    struct <cname>_closure with one field per capture (by-reference captures
    and `this` become pointers); operator() becomes <cname>(closure*, params)."""
    ls = []
    find_all(host, 'LambdaExpr', ls)
    # the body is dumped twice (inside operator() and as last child): drop nested duplicates
    seen, uniq = set(), []
    for l in ls:
        key = (l.get('range', {}).get('begin', {}).get('offset'), l.get('range', {}).get('end', {}).get('offset'))
        if key in seen:
            continue
        seen.add(key)
        uniq.append(l)
    if t.get('expect_lambdas') is not None and len(uniq) != t['expect_lambdas']:
        raise InfraError('contract no longer attached: %s contains %d lambdas, spec expects %d' %
                         (t['lambda_in'], len(uniq), t['expect_lambdas']))
    k = t['ordinal']
    if k >= len(uniq):
        raise InfraError('contract no longer attached: lambda #%d not found in %s (%d lambdas)' % (k, t['lambda_in'], len(uniq)))
    lam = uniq[k]
    return request_lambda_node(L, lam, t['cname'], t)


def request_lambda_node(L, lam, cname, t=None):
    t = t or {}
    inner = lam['inner']
    rec = inner[0]
    call = [c for c in rec['inner'] if c.get('kind') == 'CXXMethodDecl' and c.get('name') == 'operator()']
    if not call:
        # generic lambda: operator() is a template; take its (single) instantiation
        for c in rec['inner']:
            if c.get('kind') == 'FunctionTemplateDecl' and c.get('name') == 'operator()':
                inst = [x for x in c.get('inner', []) if x.get('kind') == 'CXXMethodDecl' and Index.has_body(x)
                        and any(y.get('kind') == 'TemplateArgument' for y in x.get('inner', []))]
                if t.get('lambda_type'):
                    inst = [x for x in inst if x['type']['qualType'] == t['lambda_type']]
                if len(inst) != 1:
                    raise InfraError('contract no longer attached: generic lambda at %s has %d instantiations: %s' %
                                     (where(lam), len(inst), [x['type']['qualType'] for x in inst]))
                call = inst
                L.idx.pattern.discard(inst[0]['id'])
    if not call:
        raise Unsupported('lambda without call operator at %s' % where(lam))
    call = call[0]
    fields = [c for c in rec['inner'] if c.get('kind') == 'FieldDecl']
    inits = [c for c in inner[1:] if c.get('kind') != 'CompoundStmt']
    if len(fields) != len(inits):
        raise Unsupported('lambda capture list shape at %s' % where(lam))
    f = L.request_fn(call, cname, kind='lambda')
    # the struct carries the name clang prints for the closure type, so that variables and fields of that type
    # (local closure objects, `F& f` members) and the lowered call operator agree; <cname>_closure is an alias
    tq = lam.get('type', {}).get('qualType', '')
    f.closure_ty = mangle(tq) if tq.startswith('(lambda at ') else cname + '_closure'
    lines = []
    for fd, ini in zip(fields, inits):
        ft = L.ty(fd['type'])
        e = ini
        while e.get('kind') in ('ImplicitCastExpr', 'CXXConstructExpr', 'MaterializeTemporaryExpr', 'ExprWithCleanups') and e.get('inner'):
            e = e['inner'][0]
        if e.get('kind') == 'CXXThisExpr':
            pt = ft if ft.kind == 'ptr' else Ty('ptr', to=ft)
            lines.append('  %s;' % L.cdecl(pt, '__this'))
            f.this_field = 'self->__this'
            continue
        if e.get('kind') != 'DeclRefExpr':
            raise Unsupported('lambda init-capture at %s' % where(lam))
        vid = e['referencedDecl']['id']
        vname = e['referencedDecl']['name']
        if ft.kind == 'ref':
            vt = L.ty(e['type']).noref()
            lines.append('  %s;' % L.cdecl(Ty('ptr', to=vt), vname))
            f.captures[vid] = ('self->' + vname, True)
        else:
            lines.append('  %s;' % L.cdecl(ft, vname))
            f.captures[vid] = ('self->' + vname, False)
    alias = '' if f.closure_ty == cname + '_closure' else '#define %s_closure %s\n' % (cname, f.closure_ty)
    L.rec_defs[f.closure_ty] = alias + 'struct %s {\n%s\n};' % (f.closure_ty, '\n'.join(lines) or '  char _empty;')
    if f.closure_ty not in L.rec_order:
        L.rec_order.append(f.closure_ty)
    L.rec_fields[f.closure_ty] = []
    L.note('lambda at %s lowered to %s(struct %s*, ...)' % (where(lam), cname, f.closure_ty))
    return f


def request_local_method(L, host, t):
    """target = method `name` of the class `record` declared locally inside function `host`"""
    recs = []
    find_all(host, 'CXXRecordDecl', recs)
    recs = [r for r in recs if r.get('name') == t['record'] and r.get('completeDefinition')]
    if len(recs) != 1:
        raise InfraError('contract no longer attached: local class %s found %d times in %s' % (t['record'], len(recs), t['local_method_in']))
    rec = recs[0]
    ms = [c for c in rec.get('inner', []) if c.get('name') == t['name'] and Index.has_body(c)]
    if len(ms) != 1:
        raise InfraError('contract no longer attached: method %s of local class %s found %d times' % (t['name'], t['record'], len(ms)))
    cname = t['cname']
    f = L.request_fn(ms[0], cname, kind='lambda')
    f.closure_ty = cname + '_obj'
    lines = []
    for c in rec.get('inner', []):
        if c.get('kind') == 'FieldDecl':
            ft = L.ty(c['type'])
            lines.append('  %s;' % L.cdecl(Ty('ptr', to=ft.to) if ft.kind == 'ref' else ft, c['name']))
    L.rec_defs[f.closure_ty] = 'struct %s {\n%s\n};' % (f.closure_ty, '\n'.join(lines) or '  char _empty;')
    L.rec_order.append(f.closure_ty)
    L.rec_fields[f.closure_ty] = []
    L.note('local class %s::%s in %s lowered to %s(struct %s*)' % (t['record'], t['name'], t['local_method_in'], cname, f.closure_ty))
    return f


def request_region(L, host, t):
    raise Unsupported('region targets not implemented yet')


# ---------------------------------------------------------------- linalg ---
# Fixed table for the free functions / operators of include/manifold/linalg.h
# on vec<T,N> (their real bodies are variadic-template `apply`/`fold`
# machinery outside the subset).  Component-wise C helpers are generated per
# (function, argument types); semantics copied from linalg.h (min: a<b?a:b,
# max: a<b?b:a, fold left-to-right).  The replay drivers compare these helpers
# with the real linalg on random inputs (differential smoke).
import re as _re

COMP = ['x', 'y', 'z', 'w']
BIN_OPS = {'operator+': '+', 'operator-': '-', 'operator*': '*', 'operator/': '/', 'cmul': '*'}
CMP_OPS = {'equal': '==', 'nequal': '!=', 'less': '<', 'greater': '>', 'lequal': '<=', 'gequal': '>='}
ASSIGN_OPS = {'operator+=': '+', 'operator-=': '-', 'operator*=': '*', 'operator/=': '/'}


def vec_info(t):
    """(scalar ctype, N) for linalg::vec<T,N> record types, else None"""
    if t.kind != 'rec' or not t.key:
        return None
    m = _re.match(r'^linalg::vec<(.*),(\d)>$', t.key)
    if not m:
        return None
    from cxx2c import BUILTIN
    return BUILTIN.get(m.group(1), m.group(1)), int(m.group(2))


def mat_info(t):
    if t.kind != 'rec' or not t.key:
        return None
    m = _re.match(r'^linalg::mat<(.*),(\d),(\d)>$', t.key)
    return (m.group(1), int(m.group(2)), int(m.group(3))) if m else None


def linalg_call(L, e, d, name, args):
    """returns C text or None when the function is not in the table"""
    if name == 'all' and len(args) == 1:
        # all(isfinite(M)) on a matrix: conjunction over every entry (the boolean matrix itself is never materialised)
        inner = L.strip(args[0])
        while inner.get('kind') in ('ImplicitCastExpr', 'MaterializeTemporaryExpr', 'ExprWithCleanups', 'CXXBindTemporaryExpr') and inner.get('inner'):
            inner = inner['inner'][0]
        if inner.get('kind') == 'CallExpr' and L.callee_name(inner) == 'isfinite' and len(inner.get('inner', [])) == 2:
            mt = L.ty(inner['inner'][1]['type']).noref()
            mi = mat_info(mt)
            if mi:
                L.need_record(mt)
                L.helper('verif_fpclass', 'static inline _Bool verif_isnan(double x) { return x != x; }\n'
                         'static inline _Bool verif_isinf(double x) { return x == (1.0 / 0.0) || x == -(1.0 / 0.0); }\n'
                         'static inline _Bool verif_isfinite(double x) { return x == x && x != (1.0 / 0.0) && x != -(1.0 / 0.0); }')
                ct = L.cty(mt)
                hn = 'la_all_isfinite_%s' % mangle(ct)
                conj = ' && '.join('verif_isfinite((double)m.%s.%s)' % (COMP[c], COMP[r]) for c in range(mi[2]) for r in range(mi[1]))
                h = L.helper(hn, 'static inline _Bool %s(%s m) { return %s; }' % (hn, ct, conj))
                return '%s(%s)' % (h, L.expr(inner['inner'][1]))
    ats = [L.ty(a['type']).noref() for a in args]
    rt = L.ty(e['type']).noref()
    vi = [vec_info(t) for t in ats]
    rvi = vec_info(rt)
    n = max([v[1] for v in vi if v] or [0])
    if n == 0:
        # scalar overloads of the same templates
        if name in ('min', 'max') and len(args) == 2 and all(t.kind == 'b' for t in ats):
            ct = L.cty(rt)
            hn = 'la_%s_%s' % (name, mangle(ct))
            h = L.helper(hn, 'static inline %s %s(%s a, %s b) { return %s; }' % (ct, hn, ct, ct, '(a < b ? a : b)' if name == 'min' else '(a < b ? b : a)'))
            return '%s(%s, %s)' % (h, L.expr(args[0]), L.expr(args[1]))
        return None
    for t in ats:
        if t.kind == 'rec' and not vec_info(t):
            return None   # matrices, quaternions: not in the table
    cts = [L.cty(t) for t in ats]
    rct = L.cty(rt)
    hname = 'la_%s_%s' % (mangle(name.replace('operator', 'op_').replace('+', 'add').replace('-', 'sub').replace('*', 'mul').replace('/', 'div').replace('!', 'not').replace('<', 'lt').replace('=', 'eq')),
                          '_'.join(mangle(c) for c in cts))

    def comp(i, k):
        return ('%s.%s' % ('ab'[i] if i < 2 else 'c', COMP[k])) if vi[i] else 'ab'[i]
    params = ', '.join('%s %s' % (c, 'abc'[i]) for i, c in enumerate(cts))
    body = None
    if name in BIN_OPS and len(args) == 2 and rvi:
        body = 'return (%s){%s};' % (rct, ', '.join('%s %s %s' % (comp(0, k), BIN_OPS[name], comp(1, k)) for k in range(n)))
    elif name in ('min', 'max') and len(args) == 2 and rvi:
        f = (lambda x, y: '(%s < %s ? %s : %s)' % (x, y, x, y)) if name == 'min' else (lambda x, y: '(%s < %s ? %s : %s)' % (x, y, y, x))
        body = 'return (%s){%s};' % (rct, ', '.join(f(comp(0, k), comp(1, k)) for k in range(n)))
    elif name in CMP_OPS and len(args) == 2 and rvi:
        body = 'return (%s){%s};' % (rct, ', '.join('%s %s %s' % (comp(0, k), CMP_OPS[name], comp(1, k)) for k in range(n)))
    elif name == 'operator-' and len(args) == 1 and rvi:
        body = 'return (%s){%s};' % (rct, ', '.join('-a.%s' % COMP[k] for k in range(n)))
    elif name == 'abs' and len(args) == 1 and rvi:
        fn = 'fabs' if rvi[0] in ('double', 'float') else 'abs'
        body = 'return (%s){%s};' % (rct, ', '.join('%s(a.%s)' % (fn, COMP[k]) for k in range(n)))
    elif name == 'isfinite' and len(args) == 1 and rvi:
        L.helper('verif_fpclass', 'static inline _Bool verif_isnan(double x) { return x != x; }\n'
                 'static inline _Bool verif_isinf(double x) { return x == (1.0 / 0.0) || x == -(1.0 / 0.0); }\n'
                 'static inline _Bool verif_isfinite(double x) { return x == x && x != (1.0 / 0.0) && x != -(1.0 / 0.0); }')
        body = 'return (%s){%s};' % (rct, ', '.join('verif_isfinite((double)a.%s)' % COMP[k] for k in range(n)))
    elif name in ('all', 'any') and len(args) == 1:
        body = 'return %s;' % ((' && ' if name == 'all' else ' || ').join('(a.%s != 0)' % COMP[k] for k in range(n)))
    elif name == 'sum' and len(args) == 1:
        body = 'return %s;' % ' + '.join('a.%s' % COMP[k] for k in range(n))
    elif name in ('minelem', 'maxelem') and len(args) == 1:
        acc = 'a.x'
        for k in range(1, n):
            c = 'a.%s' % COMP[k]
            acc = '(%s < %s ? %s : %s)' % ((acc, c, acc, c) if name == 'minelem' else (acc, c, c, acc))
        body = 'return %s;' % acc
    elif name == 'dot' and len(args) == 2 and vi[0] and vi[1]:
        body = 'return %s;' % ' + '.join('a.%s * b.%s' % (COMP[k], COMP[k]) for k in range(n))
    elif name == 'cross' and len(args) == 2 and vi[0] and vi[1] and n == 3:
        body = 'return (%s){a.y * b.z - a.z * b.y, a.z * b.x - a.x * b.z, a.x * b.y - a.y * b.x};' % rct
    elif name == 'cross' and len(args) == 2 and vi[0] and vi[1] and n == 2:
        body = 'return a.x * b.y - a.y * b.x;'
    elif name == 'length2' and len(args) == 1:
        body = 'return %s;' % ' + '.join('a.%s * a.%s' % (COMP[k], COMP[k]) for k in range(n))
    elif name == 'length' and len(args) == 1:
        # linalg: length(a) = std::sqrt(length2(a))
        body = 'return sqrt(%s);' % ' + '.join('a.%s * a.%s' % (COMP[k], COMP[k]) for k in range(n))
    elif name in ('operator==', 'operator!=') and len(args) == 2 and vi[0] and vi[1]:
        # linalg: compare(a,b) == 0 with compare = first component pair that differs (a.x != b.x ? (a.x,b.x) : ...)
        eq = ' && '.join('a.%s == b.%s' % (COMP[k], COMP[k]) for k in range(n))
        body = 'return %s(%s);' % ('' if name == 'operator==' else '!', eq)
    elif name == 'operator<' and len(args) == 2 and vi[0] and vi[1]:
        expr = 'a.%s < b.%s' % (COMP[n - 1], COMP[n - 1])
        for k in range(n - 2, -1, -1):
            expr = '(a.%s != b.%s ? a.%s < b.%s : %s)' % (COMP[k], COMP[k], COMP[k], COMP[k], expr)
        body = 'return %s;' % expr
    elif name in ASSIGN_OPS and len(args) == 2 and vi[0]:
        # a op= b, returns reference to a
        op = ASSIGN_OPS[name]
        stm = ' '.join('a->%s = a->%s %s %s;' % (COMP[k], COMP[k], op, ('b.%s' % COMP[k]) if vi[1] else 'b') for k in range(n))
        h = L.helper(hname, 'static inline %s* %s(%s* a, %s b) { %s return a; }' % (cts[0], hname, cts[0], cts[1], stm))
        return '(*%s(%s, %s))' % (h, L.addr(args[0]), L.expr(args[1]))
    if body is None:
        return None
    h = L.helper(hname, 'static inline %s %s(%s) { %s }' % (rct, hname, params, body))
    return '%s(%s)' % (h, ', '.join(L.expr(a) for a in args))
