#!/usr/bin/env python3
"""Load clang's JSON AST of a translation unit rooted in /repo, restricted to
non-system declarations by compiling the system headers into a PCH first
(-ast-dump does not deserialize PCH declarations).  Results are cached under
BUILD/cache keyed by the content of /repo's sources, so every check run sees
the current working tree."""
import hashlib, json, os, pickle, subprocess, sys, glob, re, threading

REPO = os.environ.get('VERIF_REPO', '/repo')
VERIF = os.path.dirname(os.path.dirname(os.path.abspath(__file__)))
BUILD = os.environ.get('VERIF_BUILD', os.path.join(VERIF, 'build'))
CLANG = 'clang++'
STD = ['-std=c++17']
INCS = ['-I%s/src' % REPO, '-I%s/include' % REPO, '-I%s/bindings/c/include' % REPO,
        '-I%s/bindings/c' % REPO]


class InfraError(Exception):
    """Infrastructure failure: maps to exit code 2, never to a verdict."""


def repo_files():
    pats = ['src/*.h', 'src/*.cpp', 'include/manifold/*.h', 'bindings/c/*.cpp',
            'bindings/c/*.h', 'bindings/c/include/manifold/*.h']
    out = []
    for p in pats:
        out += sorted(glob.glob(os.path.join(REPO, p)))
    return out


_tree_hash = None


def tree_hash():
    global _tree_hash
    if _tree_hash is None:
        h = hashlib.sha1()
        for f in repo_files():
            h.update(f.encode())
            with open(f, 'rb') as fh:
                h.update(fh.read())
        _tree_hash = h.hexdigest()
    return _tree_hash


def sys_includes():
    """every `#include <...>` line of the repo sources (mechanical grep), minus
    headers that do not exist in this image."""
    seen = []
    for f in repo_files():
        for line in open(f, errors='replace'):
            m = re.match(r'\s*#\s*include\s*<([^>]+)>', line)
            if m and m.group(1) not in seen:
                seen.append(m.group(1))
    drop = ('intrin.h', 'tracy/', 'Tracy', 'clipper', 'assimp', 'emscripten', 'nanobind')
    return [s for s in seen if not any(d in s for d in drop)]


def ensure_pch(defines):
    os.makedirs(os.path.join(BUILD, 'cache'), exist_ok=True)
    incs = sys_includes()
    key = hashlib.sha1((' '.join(incs) + ' '.join(defines)).encode()).hexdigest()[:16]
    hdr = os.path.join(BUILD, 'cache', 'sys_%s.h' % key)
    pch = os.path.join(BUILD, 'cache', 'sys_%s.pch' % key)
    if not os.path.exists(pch):
        par = any(d.startswith('-DMANIFOLD_PAR=1') for d in defines)
        with open(hdr, 'w') as f:
            for i in incs:
                if i.startswith('tbb/') and not par:
                    continue
                f.write('#include <%s>\n' % i)
        tmp = pch + '.%d.%d.tmp' % (os.getpid(), threading.get_ident())
        r = subprocess.run([CLANG] + STD + defines + ['-x', 'c++-header', hdr, '-o', tmp],
                           capture_output=True, text=True)
        if r.returncode != 0:
            raise InfraError('pch build failed: ' + r.stderr[-2000:])
        os.replace(tmp, pch)
    return pch


def annotate_locs(root):
    """clang omits file/line when unchanged from the previously printed
    location; restore them by walking in document order."""
    state = {'file': None, 'line': None}
    stack = [root]
    # iterative pre-order in key order
    def walk(o):
        if isinstance(o, dict):
            if 'offset' in o and ('col' in o or 'tokLen' in o):
                if 'file' in o:
                    state['file'] = o['file']
                else:
                    o['file'] = state['file']
                if 'line' in o:
                    state['line'] = o['line']
                else:
                    o['line'] = state['line']
            for k, v in o.items():
                if isinstance(v, (dict, list)):
                    walk(v)
        elif isinstance(o, list):
            for v in o:
                walk(v)
    sys.setrecursionlimit(100000)
    walk(root)


def load_ast(tu_text, defines):
    """returns the TranslationUnitDecl dict for `tu_text` compiled with
    `defines` against the current /repo tree."""
    os.makedirs(os.path.join(BUILD, 'cache'), exist_ok=True)
    if REPO != '/repo':
        # seeded-change testing runs the same units against a scratch worktree (VERIF_REPO): inline the
        # instantiation-forcing TUs and retarget every "/repo/..." include
        def inline(m):
            with open(m.group(1)) as fh:
                return fh.read()
        tu_text = re.sub(r'#include "(%s/contracts/tu/[^"]+)"' % re.escape(VERIF), inline, tu_text)
        tu_text = tu_text.replace('"/repo/', '"%s/' % REPO)
    key = hashlib.sha1((tu_text + '\0' + ' '.join(defines) + '\0' + tree_hash()).encode()).hexdigest()[:20]
    pk = os.path.join(BUILD, 'cache', 'ast_%s.pickle' % key)
    if os.path.exists(pk):
        try:
            with open(pk, 'rb') as f:
                return pickle.load(f)
        except Exception:
            pass
    pch = ensure_pch(defines)
    src = os.path.join(BUILD, 'cache', 'tu_%s.cpp' % key)
    with open(src, 'w') as f:
        f.write(tu_text + '\n')
    cmd = [CLANG] + STD + defines + INCS + ['-include-pch', pch, '-fsyntax-only',
                                           '-Wno-everything',
                                           '-Xclang', '-ast-dump=json', src]
    r = subprocess.run(cmd, capture_output=True)
    if r.returncode != 0:
        raise InfraError('clang failed on TU %r: %s' % (tu_text, r.stderr.decode(errors='replace')[-3000:]))
    root = json.loads(r.stdout)
    annotate_locs(root)
    tmp = pk + '.%d.%d.tmp' % (os.getpid(), threading.get_ident())
    with open(tmp, 'wb') as f:
        pickle.dump(root, f, protocol=pickle.HIGHEST_PROTOCOL)
    os.replace(tmp, pk)
    return root


if __name__ == '__main__':
    import time
    t = time.time()
    root = load_ast(sys.argv[1], sys.argv[2:])
    print(len(root['inner']), 'top-level decls', time.time() - t, 's')
