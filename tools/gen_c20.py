#!/usr/bin/env python3
"""Developer-time generator of contracts/c20_wrapgen.{unit.json,spec.h}: one data-flow contract per C wrapper
whose body makes exactly one C++ API call.  The ORACLE is the declared interface, not the wrapper body:
  * the C parameter names of bindings/c/include/manifold/manifoldc.h (snake_case) are paired with the C++
    parameter names of include/manifold/*.h (camelCase) by normalised name; x/y/z components pair with vector
    parameters in order; the object handle pairs with the receiver;
  * a wrapper with a `void *mem` parameter must construct exactly once, in `mem`, and return `mem`;
  * a scalar result must be the value the C++ call returned.
A parameter that cannot be paired by name produces NO assertion and is listed in the report
(contracts/c20_wrapgen.report.txt) -- nothing is read off the wrapper body to fill the gap.
The generated files are committed; ./check lowers the wrappers from /repo on every run and proves the cases."""
import sys, os, json, re
sys.path.insert(0, os.path.dirname(os.path.abspath(__file__)))
import unit as U

VERIF = os.path.dirname(os.path.dirname(os.path.abspath(__file__)))
SKIP = set('manifold_cylinder manifold_sphere manifold_cube manifold_translate manifold_scale manifold_rotate manifold_boolean manifold_project '
           'manifold_slice manifold_trim_by_plane manifold_smooth_out manifold_refine_to_length manifold_cross_section_offset '
           'manifold_cross_section_translate'.split())   # hand-written in c20_wrappers
# wrappers whose receiver is by design NOT the handle argument (they work on a copy constructed in `mem`): hand-written in c20_lifecycle
SKIP |= set('manifold_meshgl_merge manifold_meshgl64_merge'.split())
# wrappers that look INTO a handle (vector element access): need a real object behind the handle, hand-written in c20_lifecycle
SKIP |= set('manifold_manifold_vec_set manifold_cross_section_vec_set'.split())


def norm(s):
    return re.sub(r'[^a-z0-9]', '', s.lower())


def parse_proto(p):
    m = re.match(r'(.*?)\b(manifold_\w+)\((.*)\);$', p)
    ret, name, ps = m.group(1).strip(), m.group(2), m.group(3)
    params = []
    if ps.strip() != 'void':
        for x in ps.split(','):
            x = x.strip()
            mm = re.match(r'(.*?)(\w+)$', x)
            params.append((mm.group(1).strip(), mm.group(2)))
    return ret, name, params


GEN_TU = os.environ.get('GEN_TU')            # alternative translation unit (Box/Rect wrappers)
GEN_UNIT = os.environ.get('GEN_UNIT', 'c20_wrapgen')
GEN_SKIP = set(x for x in os.environ.get('GEN_SKIP', '').split(',') if x)
GEN_RECORD = [x for x in os.environ.get('GEN_RECORD', '').split(',') if x]   # in-repo (header-defined) methods to record by name


def survey(names):
    base = U.load_unit('c20_wrappers')
    base['recorder_names'] = 'qualified'
    if GEN_TU:
        base['tu'] = '#include "%s"' % GEN_TU
    if GEN_RECORD:
        base['record_calls'] = GEN_RECORD
    out = {}
    for q in names:
        u = dict(base)
        u['targets'] = [{'qname': q, 'cname': q}]
        u['jobs'] = []
        try:
            c, m = U.lower_unit(u, '/tmp/gen_c20_out')
        except Exception as e:
            continue
        out[q] = {'proto': m['protos'][q], 'recorders': m['recorders'], 'loops': m['loops'].get(q, 0),
                  'dropped': [l for l in m['lowering_log'] if 'DROPPED' in l],
                  'placement': any('placement new' in l for l in m['lowering_log'])}
    return out


SCALARS = ('double', 'float', 'int', 'unsigned int', 'unsigned long', 'long', '_Bool', 'unsigned char')


def gen_case(q, info, report):
    ret, name, params = parse_proto(info['proto'])
    (cname, rec), = info['recorders'].items()
    decls, args, lines = [], [], []
    used = set()
    handles = []      # (ctype, name) opaque handle params
    scal = []         # scalar params
    for ct, pn in params:
        if pn == 'mem' and ct == 'void*':
            args.append('mem')
            continue
        if ct.endswith('*') and ct.startswith('struct Manifold'):
            decls.append('%s %s = (%s)nondet_ulong();' % (ct, pn, ct))
            handles.append((ct, pn))
        elif ct in SCALARS:
            decls.append('%s %s = %s;' % (ct, pn, {'double': 'nondet_double()', 'float': 'nondet_float()', '_Bool': 'nondet_bool()', 'int': 'nondet_int()', 'unsigned int': 'nondet_uint()', 'long': 'nondet_long()', 'unsigned long': 'nondet_ulong()'}.get(ct, '(%s)nondet_uint()' % ct)))
            if ct in ('double', 'float'):
                decls.append('__CPROVER_assume(%s == %s);' % (pn, pn))
            scal.append((ct, pn))
        elif ct.startswith('struct ManifoldVec') and not ct.endswith('*'):
            decls.append('%s %s;' % (ct, pn))
            n = int(ct[-1])
            decls.append('__CPROVER_assume(%s);' % ' && '.join('%s.%s == %s.%s' % (pn, c, pn, c) for c in 'xyzw'[:n]))
            scal.append((ct, pn))
        else:
            return None, 'parameter type %s not generated' % ct
        args.append(pn)
    has_mem = any(pn == 'mem' for ct, pn in params)
    conds = ['ghost_%s_calls == 1' % cname]
    unmatched = []
    ghosts = [g for g in rec['ghosts'] if not g.endswith('_calls') and not g.endswith('_ret') and 'nondet_bool' not in g]
    free_handles = list(handles)
    for g in ghosts:
        m = re.match(r'(.*?)\s*(ghost_%s_(\w+))$' % re.escape(cname), g)
        gt, gv, gp = m.group(1).strip(), m.group(2), m.group(3)
        if gp == 'self' and gt == 'void*':
            if free_handles:
                h = free_handles.pop(0)
                conds.append('%s == (void*)%s' % (gv, h[1]))
            else:
                unmatched.append(gp)
            continue
        if gt == 'void*':
            cand = [h for h in free_handles if norm(h[1]) == norm(gp)]
            if not cand and len(free_handles) == 1 and len([x for x in ghosts if x.startswith('void*') and not x.endswith('_self')]) == 1:
                cand = free_handles[:1]       # the only remaining object argument
            if cand:
                free_handles.remove(cand[0])
                conds.append('%s == (void*)%s' % (gv, cand[0][1]))
            else:
                unmatched.append(gp)
            continue
        mv = re.match(r'struct linalg_vec_(double|float|int)_(\d)$', gt)
        if mv:
            n = int(mv.group(2))
            comps = 'xyzw'[:n]
            # a C struct parameter of the same name, or n consecutive scalars  <p>_x.. / x,y,z
            st = [s for s in scal if s[0].startswith('struct ManifoldVec') and norm(s[1]) == norm(gp)]
            if st:
                conds += ['%s.%s == %s.%s' % (gv, c, st[0][1], c) for c in comps]
                used.add(st[0][1])
                continue
            names = [s[1] for s in scal]
            found = None
            for pref in (norm(gp) + '_', norm(gp), ''):
                want = [[pref + c for c in comps]]
                for w in want:
                    idx = [i for i, nm in enumerate(names) if nm.lower().replace('_', '') == w[0].replace('_', '')]
                    for i in idx:
                        seg = names[i:i + n]
                        if [s.lower().replace('_', '') for s in seg] == [x.replace('_', '') for x in w] and not (set(seg) & used):
                            found = seg
                            break
                    if found:
                        break
                if found:
                    break
            if found:
                conds += ['%s.%s == %s' % (gv, c, p) for c, p in zip(comps, found)]
                used |= set(found)
            else:
                unmatched.append(gp)
            continue
        if gt in SCALARS:
            cand = [s for s in scal if norm(s[1]) == norm(gp) and s[1] not in used and s[0] in SCALARS]
            if cand:
                used.add(cand[0][1])
                if gt == '_Bool' and cand[0][0] != '_Bool':
                    conds.append('%s == (%s != 0)' % (gv, cand[0][1]))
                else:
                    conds.append('%s == %s' % (gv, cand[0][1]))
            else:
                unmatched.append(gp)
            continue
        unmatched.append(gp + ':' + gt)
    # the only remaining scalar argument pairs with the only remaining scalar parameter (unnamed C++ parameters,
    # abbreviations such as deg/degrees): unambiguous, so no information is taken from the wrapper body
    rest_g = [u for u in unmatched if ':' not in u]
    rest_c = [s for s in scal if s[1] not in used and s[0] in SCALARS]
    if len(rest_g) == 1 and len(rest_c) == 1 and len(unmatched) == 1:
        gdecl = [g for g in ghosts if g.endswith('ghost_%s_%s' % (cname, rest_g[0]))][0]
        gt = gdecl.rsplit(' ', 1)[0].strip()
        if gt in SCALARS:
            gv = 'ghost_%s_%s' % (cname, rest_g[0])
            conds.append(('%s == (%s != 0)' if gt == '_Bool' and rest_c[0][0] != '_Bool' else '%s == %s') % (gv, rest_c[0][1]))
            used.add(rest_c[0][1])
            unmatched = []
    unused_c = [s[1] for s in scal if s[1] not in used] + [h[1] for h in free_handles]
    call = '%s(%s)' % (name, ', '.join(args))
    body = ['  { BEGIN_CASE(); ghost_%s_calls = 0;' % cname] + ['    ' + d for d in decls]
    if ret == 'void':
        body.append('    %s;' % call)
    elif ret.endswith('*'):
        body.append('    void *ret_ = %s;' % call)
    else:
        body.append('    %s ret_ = %s;' % (ret, call))
    desc = '%s -> %s: every argument reaches the C++ parameter of the same name' % (name, rec['callee'])
    body.append('    __CPROVER_assert(%s, "%s");' % (' && '.join(conds), desc))
    if has_mem and ret.endswith('*') and info['placement']:
        body.append('    IN_PLACE(ret_, mem);')
    if ret in SCALARS and rec['ret_recorded']:
        gret = [g for g in rec['ghosts'] if g.endswith('_ret')][0]
        grt = gret.rsplit(' ', 1)[0]
        if grt == ret or (grt == '_Bool' and ret == 'int'):
            eq = '(ret_ == ghost_%s_ret || (ret_ != ret_ && ghost_%s_ret != ghost_%s_ret))' % (cname, cname, cname) if ret in ('double', 'float') else 'ret_ == ghost_%s_ret' % cname
            if grt == '_Bool':
                eq = '(ret_ == 0 || ret_ == 1) && (ret_ != 0) == (ghost_%s_ret != 0)' % cname
            body.append('    __CPROVER_assert(%s, "%s returns what %s returned");' % (eq, name, rec['callee']))
        else:
            body.append('    __CPROVER_assert((double)ret_ == (double)ghost_%s_ret, "%s returns what %s returned (converted %s -> %s)");' % (cname, name, rec['callee'], grt, ret))
    body.append('  }')
    if unmatched or unused_c:
        report.append('%s: C++ parameters without a same-named C parameter: %s; C parameters not paired: %s' % (name, unmatched, unused_c))
    return '\n'.join(body), None


def main():
    names = open(os.environ.get('GEN_NAMES', '/tmp/c20_ok.txt')).read().split()
    sv = survey(names)
    report, cases, targets = [], [], []
    for q in sorted(sv):
        info = sv[q]
        if q in GEN_SKIP:
            report.append('%s: skipped by hand (works on a by-value copy of the object behind the handle: identity pairing does not apply)' % q)
            continue
        if q in SKIP or len(info['recorders']) != 1 or info['dropped']:
            continue
        if info['loops']:
            report.append('%s: skipped (marshalling loop over a caller-supplied array; not a pure pass-through wrapper)' % q)
            continue
        txt, err = gen_case(q, info, report)
        if err:
            report.append('%s: skipped (%s)' % (q, err))
            continue
        cases.append(txt)
        targets.append(q)
    spec = '''/* GENERATED by tools/gen_c20.py -- do not edit by hand (re-run the generator and review the diff).
 * C20: "Every function of the C FFI returns the value ... that the C++ call it names returns for the same
 * arguments (same argument order, units, defaults and error codes), objects are constructed in exactly the
 * caller-supplied storage".  One case per wrapper that makes exactly one C++ API call; the pairing oracle is
 * the parameter NAMES of the two public headers (see tools/gen_c20.py and c20_wrapgen.report.txt). */
#ifdef SPEC_CONTRACTS
void *ghost_placement_mem;
int ghost_placement_count;
static inline void *placement_hook(void *p) { ghost_placement_mem = p; ghost_placement_count++; return p; }
#undef PLACEMENT_NEW_HOOK
#define PLACEMENT_NEW_HOOK(p) placement_hook(p)
#endif
#ifdef SPEC_HARNESS
#define BEGIN_CASE() do { ghost_placement_count = 0; ghost_placement_mem = 0; } while (0)
#define IN_PLACE(ret, mem) __CPROVER_assert((void *)(ret) == (void *)(mem) && ghost_placement_mem == (void *)(mem) && ghost_placement_count == 1, \\
                                            "the object is constructed exactly once, in the caller-supplied storage, and that storage is the returned handle")
'''
    per = 30
    jobs = []
    for k in range(0, len(cases), per):
        hn = 'h_%s_%d' % (GEN_UNIT.split('_', 1)[1], k // per)
        spec += 'void %s(void) {\n  char mem[256];\n  HARNESS_END;\n%s\n}\n' % (hn, '\n'.join(cases[k:k + per]))
        jobs.append({'name': '%s_%d' % (GEN_UNIT.split('_', 1)[1], k // per), 'harness': hn, 'backend': 'sat', 'timeout': 600})
    spec += '#endif\n'
    unit = {
        'properties': ['C20'],
        'doc': 'bindings/c: %d further wrappers (each makes exactly one C++ API call): generated data-flow contracts -- every C argument reaches the C++ parameter of the same name, placement-new receives exactly `mem`, scalar results are passed through. Pairing oracle: parameter names of the public headers (tools/gen_c20.py).' % len(targets),
        'tu': '#include "%s"' % (GEN_TU or '/verif/contracts/tu/c20_wrappers.cpp'),
        'record_external_calls': True,
        **({'record_calls': GEN_RECORD} if GEN_RECORD else {}),
        'recorder_names': 'qualified',
        'targets': [{'qname': q, 'cname': q} for q in targets],
        'jobs': jobs,
        'trusted': ['recording stubs generated from the C++ declarations; the C++ behaviour behind the calls is not reached',
                    'copy construction of Manifold / CrossSection / Polygons into the caller\'s storage lowered to struct / model copy',
                    'pairing by parameter name: a C++ parameter with no same-named C parameter gets no assertion (listed in c20_wrapgen.report.txt)'],
        'not_reached': ['wrappers with callbacks, std::vector marshalling or no C++ API call (see c20_lifecycle for vec/get)', 'enum-typed arguments beyond those in c20_wrappers/c20_enums'],
    }
    json.dump(unit, open(os.path.join(VERIF, 'contracts', GEN_UNIT + '.unit.json'), 'w'), indent=1)
    open(os.path.join(VERIF, 'contracts', GEN_UNIT + '.spec.h'), 'w').write(spec)
    open(os.path.join(VERIF, 'contracts', GEN_UNIT + '.report.txt'), 'w').write('\n'.join(report) + '\n')
    print(len(targets), 'wrappers generated;', len(report), 'report lines')


if __name__ == '__main__':
    main()
