#!/usr/bin/env python3
"""Verification units: lower targets from /repo, weave the contracts from
/verif/contracts/<unit>.spec.h, run goto-cc / goto-instrument --dfcc / cbmc
per proof job, classify obligations.  See DESIGN.md sections 1, 4."""
import json, os, re, subprocess, sys, time, hashlib, signal, shutil, resource

sys.path.insert(0, os.path.dirname(os.path.abspath(__file__)))
from astload import load_ast, InfraError, REPO, VERIF, BUILD
import cxx2c
from cxx2c import Lowerer, Unsupported, Index

CONTRACTS = os.path.join(VERIF, 'contracts')

# explicit list: cbmc 6's implicit standard set (with malloc-may-fail) blew up to 49 GB on
# kernels with several symbolic-length arrays, the same checks named explicitly take 12 s
CHECK_FLAGS = ['--no-standard-checks', '--bounds-check', '--pointer-check', '--pointer-primitive-check',
               '--signed-overflow-check', '--conversion-check', '--div-by-zero-check',
               '--undefined-shift-check', '--pointer-overflow-check', '--unwinding-assertions']


def load_unit(name):
    p = os.path.join(CONTRACTS, name + '.unit.json')
    with open(p) as f:
        u = json.load(f)
    u['unit'] = name
    u.setdefault('defines', ['-DMANIFOLD_PAR=-1'])
    u.setdefault('jobs', [])
    u.setdefault('targets', [])
    return u


def find_target(L, t):
    """must-fire rule: a target named by a spec must be found exactly once"""
    idx = L.idx
    if 'lambda_in' in t or 'region_in' in t or 'local_method_in' in t:
        host = find_target(L, {'qname': t.get('lambda_in') or t.get('region_in') or t.get('local_method_in'), 'type': t.get('host_type'),
                               'targs': t.get('host_targs')})
        return host
    def natkey(s):
        return [int(x) if x.isdigit() else x for x in re.split(r'(\d+)', s)]
    if 'qname_re' in t:
        # names that embed a source position (instantiations over a lambda type: "(lambda at file:line:col)")
        # are matched by pattern; `nth` picks among the matches in source order of the embedded position
        names = sorted((q for q in idx.funcs if re.fullmatch(t['qname_re'], q)), key=natkey)
        names = [q for q in names if any(Index.has_body(n) and n['id'] not in idx.pattern for n in idx.funcs[q])]
        if t.get('expect_matches') is not None and len(names) != t['expect_matches']:
            raise InfraError('contract no longer attached: pattern %s matched %d function names, spec expects %d' %
                             (t['qname_re'], len(names), t['expect_matches']))
        if t.get('nth', 0) >= len(names):
            raise InfraError('contract no longer attached: pattern %s matched %d function names' % (t['qname_re'], len(names)))
        t = dict(t)
        t['qname'] = names[t.get('nth', 0)]
    cands = [n for n in idx.funcs.get(t['qname'], []) if Index.has_body(n) and n['id'] not in idx.pattern]
    if t.get('type'):
        cands = [n for n in cands if n['type']['qualType'] == t['type']]
    if t.get('type_re'):
        cands = [n for n in cands if re.fullmatch(t['type_re'], n['type']['qualType'])]
    if t.get('type_nth') is not None:
        # several instantiations told apart only by an embedded lambda position: pick by source order, not by line number
        uq = sorted({n['type']['qualType'] for n in cands}, key=natkey)
        if t.get('expect_matches') is not None and len(uq) != t['expect_matches']:
            raise InfraError('contract no longer attached: %s has %d instantiations matching %s, spec expects %d' % (t['qname'], len(uq), t.get('type_re'), t['expect_matches']))
        if t['type_nth'] >= len(uq):
            raise InfraError('contract no longer attached: %s has only %d instantiations matching %s' % (t['qname'], len(uq), t.get('type_re')))
        cands = [n for n in cands if n['type']['qualType'] == uq[t['type_nth']]]
    if t.get('targs'):
        want = [cxx2c.strip_const_deep(a) for a in t['targs']]
        cands = [n for n in cands if [cxx2c.strip_const_deep(a) for a in idx._targs(n)] == want]
    # the same definition can be indexed under lexical and semantic names
    uniq = {n['id']: n for n in cands}
    if len(uniq) > 1 and t.get('same_instantiation_ok'):
        # clang lists an implicit instantiation once per point of instantiation: identical signature and body
        sigs = set(n['type']['qualType'] for n in uniq.values())
        if len(sigs) == 1:
            first = sorted(uniq.values(), key=lambda n: n['id'])[0]
            uniq = {first['id']: first}
    if len(uniq) != 1:
        have = [n['type']['qualType'] for n in idx.funcs.get(t['qname'], [])]
        raise InfraError('contract no longer attached: target %s %s matched %d definitions (have: %s)' %
                         (t['qname'], t.get('type', ''), len(uniq), have))
    return list(uniq.values())[0]


def lower_unit(u, outdir):
    """returns path of generated C and metadata"""
    os.makedirs(outdir, exist_ok=True)
    root = load_ast(u['tu'], u['defines'])
    L = Lowerer(root, spec=u)
    import lower_ext
    lower_ext.install(L)
    meta = {'targets': [], 'loops': {}}
    for t in u['targets']:
        n = find_target(L, t)
        if 'lambda_in' in t:
            f = lower_ext.request_lambda(L, n, t)
            if t.get('skeleton'):
                f.skeleton = True
                f.skeleton_returns = t.get('skeleton_returns')
        elif 'local_method_in' in t:
            f = lower_ext.request_local_method(L, n, t)
        elif 'region_in' in t:
            f = lower_ext.request_region(L, n, t)
        else:
            f = L.request_fn(n, t['cname'])
            if t.get('ret'):
                # declared return type spelled through an alias chain the AST leaves unresolved (iterator_traits<..>::reference)
                f.ret_hint = L.parse_type(t['ret'])
            if t.get('ctor_as_method'):
                f.ctor_as_method = True
            if t.get('truncate_after'):
                f.truncate_after = t['truncate_after']
            if t.get('skeleton'):
                f.skeleton = True
                f.skeleton_returns = t.get('skeleton_returns')
            if t.get('region_params'):
                f.region_params = t['region_params']
            if t.get('keep_from_call'):
                f.keep_from_call = t['keep_from_call']
            if t.get('keep_until'):
                f.keep_until = tuple(t['keep_until'])
                f.export_locals = t.get('export_locals', [])
                f.region_return = t.get('region_return')
            if t.get('keep_after'):
                f.keep_after = tuple(t['keep_after'])
            if t.get('keep_top'):
                f.keep_top = [tuple(x) for x in t['keep_top']]
                f.export_locals = t.get('export_locals', [])
        f.is_target = True
    L.run()
    for f in L.fn_order:
        if getattr(f, 'is_target', False):
            fl, ln = f.src
            meta['targets'].append({'cname': f.cname, 'qname': L.idx.qname.get(f.node['id'], f.cname),
                                    'file': fl, 'line': ln, 'loops': f.loops,
                                    'sha1': hashlib.sha1(f.text.encode()).hexdigest()})
        meta['loops'][f.cname] = f.loops
    # must-fire: loop counts expected by the spec
    for fn, cnt in u.get('expect_loops', {}).items():
        if meta['loops'].get(fn) != cnt:
            raise InfraError('contract no longer attached: %s has %s loops, spec expects %d' %
                             (fn, meta['loops'].get(fn), cnt))
    # must-fire: a region picked by statement ordinal must still be the statement the spec was written for
    for t in u.get('targets', []):
        for rx in t.get('expect_text', []):
            hit = [f for f in L.fn_order if f.cname == t.get('cname')]
            if not hit or not re.search(rx, hit[0].text):
                raise InfraError('contract no longer attached: the lowered text of %s does not contain /%s/ (the region selected by ordinal is no longer the one the spec describes)' % (t.get('cname'), rx))
    for fn in u.get('expect_functions', []):
        if fn not in meta['loops']:
            raise InfraError('contract no longer attached: function %s was not lowered' % fn)
    code = L.emit()
    spec = os.path.join(CONTRACTS, u['unit'] + '.spec.h')
    types, rest = code.split('/*@TYPES_END@*/')
    protos, fns = rest.split('/*@PROTOS_END@*/')
    txt = types
    txt += '\n#include "%s"\n' % os.path.join(CONTRACTS, 'prelude.h')
    txt += protos
    txt += '\n#define SPEC_CONTRACTS\n#include "%s"\n#undef SPEC_CONTRACTS\n' % spec
    # recorders the spec was written against (snapshot taken at rebaseline time): a wrapper that stops calling its
    # C++ function altogether would otherwise make the harness fail to compile (an infrastructure error); declaring
    # the ghosts of the vanished recorder keeps the harness compiling, and its `calls == 1` obligation then fails.
    missing = []
    try:
        with open(os.path.join(os.path.dirname(CONTRACTS), 'baseline', 'recorders.json')) as f:
            snap = json.load(f).get(u['unit'], {})
    except Exception:
        snap = {}
    have = getattr(L, 'recorder_info', {})
    for rn, ghosts in sorted(snap.items()):
        if rn not in have:
            missing.append(rn)
            txt += '\n/* recorder %s: present when the spec was baselined, no longer called anywhere in the lowered code */\n' % rn
            txt += '\n'.join(g + ';' for g in ghosts if not g.startswith('_Bool nondet_bool')) + '\n'
            L.log.append('recording stub %s is no longer called by any lowered function: its ghosts are declared so the spec still compiles (call count stays 0)' % rn)
    meta['missing_recorders'] = missing
    txt += fns
    txt += '\n#define SPEC_HARNESS\n#include "%s"\n#undef SPEC_HARNESS\n' % spec
    txt += '#ifdef HARNESS\nint main(void) { HARNESS(); return 0; }\n#endif\n'
    cfile = os.path.join(outdir, u['unit'] + '.c')
    with open(cfile, 'w') as f:
        f.write(txt)
    with open(os.path.join(outdir, 'lowering.log'), 'w') as f:
        f.write('\n'.join(L.log) + '\n')
    meta['lowering_log'] = L.log
    meta['recorders'] = getattr(L, 'recorder_info', {})
    meta['protos'] = {f.cname: f.proto for f in L.fn_order if getattr(f, 'is_target', False)}
    meta['functions'] = [f.cname for f in L.fn_order]
    return cfile, meta


def run_limited(cmd, timeout, mem_gb, cwd=None, stdout=None):
    """run in its own process group; kill the whole group on timeout (cbmc
    leaves its external solver child running otherwise)."""
    def pre():
        os.setsid()
        lim = int(mem_gb * (1 << 30))
        resource.setrlimit(resource.RLIMIT_AS, (lim, lim))
    t0 = time.time()
    p = subprocess.Popen(cmd, cwd=cwd, stdout=stdout or subprocess.PIPE, stderr=subprocess.PIPE,
                         preexec_fn=pre)
    try:
        out, err = p.communicate(timeout=timeout)
        to = False
    except subprocess.TimeoutExpired:
        try:
            os.killpg(p.pid, signal.SIGKILL)
        except ProcessLookupError:
            pass
        out, err = p.communicate()
        to = True
    finally:
        try:
            os.killpg(p.pid, signal.SIGKILL)
        except (ProcessLookupError, PermissionError):
            pass
    return p.returncode, out, err, to, time.time() - t0


def run_portfolio(gb, flags, job, timeout, jout, tier):
    import threading
    procs, done, lock = {}, [], threading.Lock()
    t0 = time.time()

    def pre():
        os.setsid()
        lim = int((12 if tier == 'thorough' else 6) * (1 << 30))
        resource.setrlimit(resource.RLIMIT_AS, (lim, lim))

    def go(be):
        cmd = ['cbmc', gb] + flags + BACKENDS[be] + ['--json-ui'] + (['--trace'] if job.get('trace', True) else [])
        out = jout + '.' + be
        with open(out, 'wb') as fo:
            p = subprocess.Popen(cmd, stdout=fo, stderr=subprocess.PIPE, preexec_fn=pre)
            with lock:
                procs[be] = p
            try:
                _, err = p.communicate(timeout=timeout + 30)
            except subprocess.TimeoutExpired:
                # own deadline of every member, independent of the supervising loop below
                try:
                    os.killpg(p.pid, signal.SIGKILL)
                except (ProcessLookupError, PermissionError, OSError):
                    pass
                p.kill()
                _, err = p.communicate()
        with lock:
            done.append((be, p.returncode, err, cmd, out))
    ths = [threading.Thread(target=go, args=(be,)) for be in ('sat', 'kissat')]
    for t in ths:
        t.start()
    winner = None
    while time.time() - t0 < timeout:
        with lock:
            ok = [d for d in done if d[1] in (0, 10)]
            alldone = len(done) == 2
        if ok:
            winner = ok[0]
            break
        if alldone:
            break
        time.sleep(0.5)
    with lock:
        for be, p in procs.items():
            try:
                os.killpg(p.pid, signal.SIGKILL)
            except (ProcessLookupError, PermissionError, OSError):
                pass
            try:
                p.kill()   # belt and braces: a solver that outlives its deadline would stall the whole check
            except Exception:
                pass
    for t in ths:
        t.join(60)
    dt = time.time() - t0
    if winner is None:
        with lock:
            any_done = done[0] if done else None
        if any_done and time.time() - t0 < timeout:
            be, rc, err, cmd, out = any_done
            os.replace(out, jout)
            return rc, err, False, dt, be, cmd
        return None, b'', True, dt, 'none', ['cbmc', gb] + flags
    be, rc, err, cmd, out = winner
    os.replace(out, jout)
    return rc, err, False, dt, be, cmd


BACKENDS = {
    'sat': [],
    'kissat': ['--external-sat-solver', 'kissat'],
    'cadical': ['--sat-solver', 'cadical'],
    'cvc5': ['--cvc5'],
    'z3': ['--z3'],
}


def run_job(u, job, cfile, outdir, tier='quick', extra_defs=(), tag=''):
    """one proof job.  Jobs whose specification needs real quantifiers run on an SMT back end; when the
    code no longer satisfies such a contract the solver answers `unknown` (or does not finish) instead of
    producing a model.  For those jobs (`falsify` in the unit file) the SAME harness is then re-run as a
    bounded search: fixed small sizes (-D...), loops unwound instead of loop contracts, SAT back end, where
    quantifiers over constant ranges expand.  A failure found there is a concrete counterexample on the
    lowered real code and is reported; if the search finds nothing the job stays undecided (exit 2)."""
    fz = job.get('falsify')
    if fz and job.get('canary_run'):
        # vacuity canary of a quantified job: satisfiability of the harness assumptions is shown on the bounded
        # instance (SAT gives a model; the SMT back end answers `unknown` on satisfiable quantified queries)
        cj = dict(job)
        for k in ('falsify', 'enforce', 'replace'):
            cj.pop(k, None)
        cj['loop_contracts'] = False
        cj['backend'] = fz.get('backend', 'sat')
        cj['defs'] = job.get('defs', []) + fz.get('defs', [])
        cj['flags'] = fz.get('flags', [])
        cj['timeout'] = fz.get('timeout', 300)
        return _run_job(u, cj, cfile, outdir, tier, extra_defs, tag)
    res = _run_job(u, job, cfile, outdir, tier, extra_defs, tag)
    if not fz:
        return res
    undecided = res['status'] in ('timeout',) or (res['status'] == 'done' and res.get('cprover_status') == 'error') \
        or (res['status'] == 'error' and 'unknown' in res.get('error', ''))
    if not undecided:
        return res
    fj = dict(job)
    for k in ('falsify', 'enforce', 'replace'):
        fj.pop(k, None)
    fj['loop_contracts'] = False
    fj['backend'] = fz.get('backend', 'sat')
    fj['defs'] = job.get('defs', []) + fz.get('defs', [])
    fj['flags'] = fz.get('flags', [])
    fj['drop_flags'] = fz.get('drop_flags', job.get('drop_flags', []))
    fj['timeout'] = fz.get('timeout', 300)
    fres = _run_job(u, fj, cfile, outdir, tier, extra_defs, tag + '.falsify')
    res['cmds'] += fres['cmds']
    res['solver_s'] = round(res['solver_s'] + fres['solver_s'], 2)
    if fres['status'] == 'done' and any(p['status'] == 'FAILURE' for p in fres['props']):
        for p in fres['props']:
            if p['status'] == 'FAILURE':
                p['desc'] += ' [unbounded proof undecided (%s); counterexample from bounded search: %s]' % (
                    res.get('error') or 'SMT solver answered unknown', fz.get('bound', ' '.join(fz.get('defs', []))))
        res['props'] = fres['props']
        res['status'] = 'done'
        res['backend'] = '%s, then bounded search on %s' % (job.get('backend'), fj['backend'])
        res['falsified'] = True
        res.pop('error', None)
        res['json'] = fres.get('json')
        return res
    if res['status'] == 'done':
        res['status'] = 'undecided'
        res['error'] = 'SMT back end answered unknown and the bounded search (%s) found no counterexample: undecided' % fz.get('bound', '')
    else:
        res['error'] = res.get('error', '') + '; bounded search (%s) found no counterexample' % fz.get('bound', '')
    return res


def _run_job(u, job, cfile, outdir, tier='quick', extra_defs=(), tag=''):
    """one proof job = one enforced contract. returns dict"""
    name = job['name'] + tag
    gb0 = os.path.join(outdir, name + '.0.gb')
    gb1 = os.path.join(outdir, name + '.1.gb')
    res = {'job': job['name'], 'unit': u['unit'], 'enforce': job.get('enforce'), 'replace': job.get('replace', []),
           'backend': job.get('backend', 'sat'), 'status': 'error', 'props': [], 'cmds': [], 'solver_s': 0.0}
    defs = ['-DCPROVER', '-DHARNESS=%s' % job['harness'], '-DJOB_%s' % job['name']] + list(extra_defs) + job.get('defs', [])
    cmd = ['goto-cc'] + defs + ['-o', gb0, cfile]
    res['cmds'].append(' '.join(cmd))
    r = subprocess.run(cmd, capture_output=True, text=True)
    if r.returncode != 0:
        res['error'] = 'goto-cc failed: ' + (r.stderr + r.stdout)[-3000:]
        return res
    if job.get('enforce'):
        cmd = ['goto-instrument', '--dfcc', 'main', '--enforce-contract', job['enforce']]
        for g in job.get('replace', []):
            cmd += ['--replace-call-with-contract', g]
        if job.get('loop_contracts', False):
            cmd += ['--apply-loop-contracts']
        cmd += job.get('instrument_flags', [])
        cmd += [gb0, gb1]
        res['cmds'].append(' '.join(cmd))
        r = subprocess.run(cmd, capture_output=True, text=True)
        if r.returncode != 0:
            res['error'] = 'goto-instrument failed: ' + (r.stderr + r.stdout)[-3000:]
            return res
    else:
        job = dict(job)
        job['flags'] = job.get('flags', []) + ['--drop-unused-functions']
        if job.get('loop_contracts'):
            # loop contracts without dfcc (harness-mode units)
            cmd = ['goto-instrument', '--apply-loop-contracts'] + job.get('instrument_flags', []) + [gb0, gb1]
            res['cmds'].append(' '.join(cmd))
            r = subprocess.run(cmd, capture_output=True, text=True)
            if r.returncode != 0:
                res['error'] = 'goto-instrument failed: ' + (r.stderr + r.stdout)[-3000:]
                return res
        else:
            gb1 = gb0
    backend = job.get('backend', 'sat')
    flags = list(CHECK_FLAGS)
    if job.get('canary_run'):
        # vacuity canary: only assertions / contract clauses matter, skip the generic checks
        flags = ['--no-standard-checks', '--unwinding-assertions']
    for fl in job.get('drop_flags', []):
        if fl in flags:
            flags.remove(fl)
    flags += job.get('flags', [])
    if tier == 'thorough':
        flags += job.get('thorough_flags', [])
    timeout = job.get('timeout', 300) * (3 if tier == 'thorough' else 1)
    jout = os.path.join(outdir, name + '.json')
    if backend == 'portfolio':
        # SAT run times on the array-heavy units vary 5x with symbol order: race minisat against kissat
        rc, err, to, dt, backend, cmd = run_portfolio(gb1, flags, job, timeout, jout, tier)
        res['backend'] = 'portfolio:' + backend
    else:
        cmd = ['cbmc', gb1] + flags + BACKENDS[backend] + ['--json-ui']
        if job.get('trace', True):
            cmd += ['--trace']
        with open(jout, 'wb') as fo:
            rc, _, err, to, dt = run_limited(cmd, timeout, 12 if tier == 'thorough' else 6, stdout=fo)
    res['cmds'].append(' '.join(cmd))
    res['solver_s'] = round(dt, 2)
    if to:
        res['status'] = 'timeout'
        res['error'] = 'cbmc exceeded %ds' % timeout
        return res
    try:
        with open(jout) as f:
            data = json.load(f)
    except Exception as ex:
        res['error'] = 'cbmc output unparsable (rc=%s): %s' % (rc, err.decode(errors='replace')[-1500:])
        return res
    props = []
    msgs = []
    for item in data:
        if 'result' in item:
            for p in item['result']:
                props.append(p)
        if item.get('messageType') in ('ERROR', 'WARNING'):
            msgs.append(item.get('messageText', ''))
        if 'cProverStatus' in item:
            res['cprover_status'] = item['cProverStatus']
    res['warnings'] = [m for m in msgs if m][:20]
    if any('ignoring' in m for m in msgs):
        res['error'] = 'solver ignored part of the formula: ' + '; '.join(m for m in msgs if 'ignoring' in m)[:500]
        return res
    if not props:
        res['error'] = 'no obligations generated (rc=%s): %s' % (rc, '; '.join(msgs)[-1500:])
        return res
    res['props'] = [{'name': p['property'], 'status': p['status'], 'desc': p.get('description', ''),
                     'line': p.get('sourceLocation', {}).get('line'), 'file': p.get('sourceLocation', {}).get('file'),
                     'trace': p.get('trace')} for p in props]
    res['status'] = 'done'
    res['json'] = jout
    return res


def classify(job, p):
    """property-bearing | supporting"""
    pats = job.get('property_bearing', [r'\.postcondition\.', r'\.assertion\.'])
    n = p['name']
    if n.startswith('__CPROVER_contracts'):
        return 'supporting'
    for pat in pats:
        if re.search(pat, n):
            return 'property'
    return 'supporting'
