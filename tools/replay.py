#!/usr/bin/env python3
"""Native replay and differential smoke drivers: C++ programs under
contracts/replay/ that call the REAL functions of /repo (current working tree)
and evaluate the same postconditions as the contracts.

Driver protocol (argv):   smoke <seed> <n>           random inputs, all checks of the unit
                          search <check> <seed> <n>  random + small exhaustive inputs for one check
                          run <check> <input-json>   one recorded input
Every line of stdout is one JSON object: {"check":..,"ok":bool,"input":{..},"observed":..} for
failures, and a final {"runs":N,"checks":[..]}."""
import os, sys, json, subprocess, re, time
sys.path.insert(0, os.path.dirname(os.path.abspath(__file__)))
from astload import InfraError, REPO, VERIF, BUILD
import nativebuild

RDIR = os.path.join(VERIF, 'contracts', 'replay')


def driver_for(u):
    src = os.path.join(RDIR, u['replay'])
    out = os.path.join(BUILD, 'replay_bin', u['unit'])
    os.makedirs(os.path.dirname(out), exist_ok=True)
    return nativebuild.build_driver(src, out, sanitize=True, link_lib=bool(u.get('replay_links_lib')),
                                    extra=tuple(f.replace('/repo', REPO) for f in u.get('replay_flags', [])))


def run_driver(exe, args, timeout=300):
    env = dict(os.environ)
    env['ASAN_OPTIONS'] = 'detect_leaks=0:abort_on_error=0:exitcode=77'
    env['UBSAN_OPTIONS'] = 'halt_on_error=1:exitcode=78:print_stacktrace=1'
    try:
        r = subprocess.run([exe] + [str(a) for a in args], capture_output=True, text=True, timeout=timeout, env=env)
    except subprocess.TimeoutExpired:
        return None, [], 'timeout'
    objs = []
    for line in r.stdout.splitlines():
        line = line.strip()
        if line.startswith('{'):
            try:
                objs.append(json.loads(line))
            except Exception:
                pass
    return r.returncode, objs, r.stderr[-3000:]


def smoke(u, seed, tier):
    exe = driver_for(u)
    n = u.get('smoke_n', 20000) * (10 if tier == 'thorough' else 1)
    t0 = time.time()
    rc, objs, err = run_driver(exe, ['smoke', seed, n])
    res = {'unit': u['unit'], 'cmd': '%s smoke %s %s' % (exe, seed, n), 'wall_s': round(time.time() - t0, 1)}
    fails = [o for o in objs if o.get('ok') is False]
    summ = [o for o in objs if 'runs' in o]
    if rc is None:
        res['infra'] = 'native driver timed out'
        return res
    if rc in (77, 78) or (rc != 0 and not fails and ('Sanitizer' in err or 'runtime error' in err)):
        fails.append({'check': 'sanitizer', 'ok': False, 'input': (objs[-1] if objs else {}), 'observed': err[-1500:]})
    elif rc != 0 and not fails:
        res['infra'] = 'native driver exit %s: %s' % (rc, err[-800:])
    if summ:
        res['runs'] = summ[-1]['runs']
        res['checks'] = summ[-1].get('checks')
    elif not fails and 'infra' not in res:
        res['infra'] = 'native driver printed no summary'
    res['failures'] = fails[:5]
    return res


def trace_inputs(trace):
    """harness-level assignments from a CBMC JSON trace (best effort)."""
    out = {}
    if not trace:
        return out
    for st in trace:
        if st.get('stepType') != 'assignment' or st.get('hidden'):
            continue
        lhs = st.get('lhs', '')
        fn = st.get('sourceLocation', {}).get('function', '')
        if not fn.startswith('h_') and not lhs.startswith('ghost_'):
            continue
        v = st.get('value', {})
        val = v.get('data', v.get('name'))
        if val is not None and len(out) < 200:
            out[lhs] = val
    return out


def replay_violation(pid, v, seed):
    u = v['u']
    rep = {'property': pid, 'unit': v['unit'], 'job': v['job'], 'obligation': v['obligation'], 'class': v['class'],
           'description': v['desc'], 'source': '%s:%s' % (v.get('file'), v.get('line')),
           'verifier_cmds': v.get('cmds'), 'reproduced': False}
    if v.get('native'):
        rep['reproduced'] = True
        rep['native'] = v['native']
        rep['replay_cmd'] = [u.get('replay'), 'run', v['native'].get('check'), v['native'].get('input')]
        return rep
    rep['verifier_counterexample'] = trace_inputs(v.get('trace'))
    tail = []
    for st in (v.get('trace') or [])[-40:]:
        if st.get('stepType') in ('assignment', 'failure') and not st.get('hidden'):
            tail.append({k: st.get(k) for k in ('stepType', 'lhs', 'reason') if k in st} |
                        {'value': st.get('value', {}).get('data'), 'line': st.get('sourceLocation', {}).get('line')})
    rep['verifier_trace_tail'] = tail
    if u.get('replay'):
        try:
            exe = driver_for(u)
            check = v['job']
            rc, objs, err = run_driver(exe, ['search', check, seed, u.get('search_n', 200000)])
            fails = [o for o in objs if o.get('ok') is False]
            if rc in (77, 78) and not fails:
                fails = [{'check': 'sanitizer', 'ok': False, 'observed': err[-1500:], 'input': objs[-1] if objs else {}}]
            if fails:
                rep['reproduced'] = True
                rep['native'] = fails[0]
                rep['replay_cmd'] = [u.get('replay'), 'run', fails[0].get('check'), fails[0].get('input')]
            else:
                rep['native_search'] = 'no failing input among %s native runs of the real code (rc=%s)' % (u.get('search_n', 200000), rc)
        except InfraError as ex:
            rep['native_search'] = 'replay driver unavailable: %s' % ex
    else:
        rep['native_search'] = 'unit has no native replay driver'
    return rep


def replay_file(path):
    with open(path) as f:
        rep = json.load(f)
    print(json.dumps({k: rep.get(k) for k in ('property', 'unit', 'job', 'obligation', 'description', 'source')}, indent=1))
    if not rep.get('native'):
        print('no native failing input recorded (no-failing-input-found); verifier output is in the file')
        return 1
    sys.path.insert(0, VERIF)
    import unit as U
    u = U.load_unit(rep['unit'])
    exe = driver_for(u)
    rc, objs, err = run_driver(exe, ['run', rep['native']['check'], json.dumps(rep['native'].get('input', {}))])
    for o in objs:
        print(json.dumps(o))
    if rc != 0 or any(o.get('ok') is False for o in objs):
        print('REPRODUCED on the real code (rc=%s)' % rc)
        if err:
            print(err[-1500:])
        return 1
    print('not reproduced on the current tree')
    return 0
