#!/usr/bin/env python3
"""Regenerate MANIFEST.json from contracts/*.unit.json + contracts/claims.json."""
import json, os, glob
V = os.path.dirname(os.path.dirname(os.path.abspath(__file__)))
claims = json.load(open(os.path.join(V, 'contracts', 'claims.json')))
units = {}
for p in sorted(glob.glob(os.path.join(V, 'contracts', '*.unit.json'))):
    u = json.load(open(p))
    if u.get('disabled'):
        continue
    for pid in u.get('properties', []):
        units.setdefault(pid, []).append(os.path.basename(p)[:-len('.unit.json')])
checks, na = [], []
for pid in ['C%02d' % i for i in range(1, 21)]:
    c = claims.get(pid, {})
    if pid in units and c.get('claim', True) and 'text' in c:
        checks.append({
            'property_id': pid,
            'quick_cmd': './check %s quick' % pid,
            'thorough_cmd': './check %s thorough' % pid,
            'evidence_file': 'evidence/%s.json' % pid,
            'replay_cmd_template': './check %s --replay {path}' % pid,
            'engine': 'cbmc-contracts',
            'level_claimed': {'category': c.get('category', 'proof'), 'text': c['text'], 'design_ref': c.get('design_ref', 'DESIGN.md section 5 ' + pid)},
            'level_note': c['note'] + ' Units: ' + ', '.join(units[pid]) + '.',
            'technique': c.get('technique', 'contract-based deductive verification (CBMC code contracts / full-domain loop-free harnesses on C lowered mechanically from the real C++ each run)'),
        })
    else:
        na.append({'property_id': pid, 'reason': c.get('na_reason', 'no verification unit built for this property yet (see DESIGN.md section 6)')})
m = {
    'version': 1,
    'setup_cmd': './setup.sh',
    'hooks': {'guard': 'MANIFOLD_VERIF', 'enable': 'contracts live in /verif/contracts and are woven into C lowered from /repo at check time (no hook needed for the proofs); the native replay/sweep drivers (tools/nativebuild.py) compile /repo/src with -DMANIFOLD_VERIF, which enables the one hook: a cancellation-check counter and k-th-check Cancel() injection in src/execution_impl.h',
              'baseline_off_cmd': 'cmake --build /repo/_build -j16 && ctest --test-dir /repo/_build -j8 --timeout 900',
              'source_commits': ['5baff390b8755246bd352a8ccca282e717f6b44c'], 'add_only': True},
    'engines': [{'name': 'cbmc-contracts', 'path': 'check', 'serves_properties': sorted(units),
                 'kind_free_text': 'clang JSON AST -> C lowering (tools/cxx2c.py) + CBMC 6.11 contracts (goto-instrument --dfcc) / loop-free full-domain harnesses; SAT (minisat, kissat) and SMT (cvc5) back ends; native ASan/UBSan replay drivers against the real C++'}],
    'checks': checks,
    'not_applicable': na,
    'notes': 'Exit 0: every obligation discharged. Exit 1: VIOLATION lines. Exit 2: infrastructure (lowering rule did not fire, tool error, timeout) and never a verdict. known_findings.txt lists recorded/fixed defects.',
}
json.dump(m, open(os.path.join(V, 'MANIFEST.json'), 'w'), indent=1)
print('claimed:', [c['property_id'] for c in checks], 'n/a:', [n['property_id'] for n in na])
