#!/usr/bin/env python3
"""print the DESIGN section 8 table from seeded/*/meta.json"""
import json, os, re
V = os.path.dirname(os.path.dirname(os.path.abspath(__file__)))
rows = []
for sid in sorted(os.listdir(os.path.join(V, 'seeded'))):
    m = json.load(open(os.path.join(V, 'seeded', sid, 'meta.json')))
    pd = open(os.path.join(V, 'seeded', sid, 'patch.diff')).read()
    files = sorted(set(re.findall(r'^\+\+\+ b/(\S+)', pd, re.M)))
    d = m.get('detection', {})
    res = d.get('results', {})
    caught = d.get('caught')
    how = ''
    for pid, r in res.items():
        if r['failed_obligations']:
            fo = r['failed_obligations'][0]
            how = fo.split(':')[0]
        elif r['infra']:
            how = 'exit 2: ' + r['infra'][0][:60]
    rows.append('| %s | %s | %s | %s | %s |' % (sid, ', '.join(files), 'confirmed' if m.get('confirmation', {}).get('confirmed') else 'NOT confirmed',
                                           ('**caught** by ' + how) if caught else ('**missed**' + (' (' + how + ')' if how else '')), m.get('history', '')))
print('| seed | file(s) | confirmation | result of `./check <property> quick` | history |\n|---|---|---|---|---|')
print('\n'.join(rows))
