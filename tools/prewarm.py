#!/usr/bin/env python3
"""warm the AST cache for every unit's TU (optional; checks rebuild on demand)"""
import sys, os, glob, json, concurrent.futures as cf
sys.path.insert(0, os.path.dirname(os.path.abspath(__file__)))
from astload import load_ast, VERIF
tus = set()
for p in glob.glob(os.path.join(VERIF, 'contracts', '*.unit.json')):
    u = json.load(open(p))
    tus.add((u['tu'], tuple(u.get('defines', ['-DMANIFOLD_PAR=-1']))))
def go(t):
    try:
        load_ast(t[0], list(t[1]))
    except Exception as e:
        print('prewarm failed for', t[0], e)
with cf.ThreadPoolExecutor(max_workers=4) as ex:
    list(ex.map(go, sorted(tus)))
print('prewarmed', len(tus), 'translation units')
