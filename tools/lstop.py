#!/usr/bin/env python3
"""developer aid: list the top-level statements (kind, ordinal among that kind, line) of a function body
   usage: lstop.py '<tu text>' <qualified name> [type substring]"""
import sys, os
sys.path.insert(0, os.path.dirname(os.path.abspath(__file__)))
from astload import load_ast
from cxx2c import Lowerer, Index, node_line
tu, q = sys.argv[1], sys.argv[2]
sub = sys.argv[3] if len(sys.argv) > 3 else ''
import os as _os
root = load_ast(tu, [_os.environ.get('PARDEF', '-DMANIFOLD_PAR=-1')])
L = Lowerer(root, spec={'unit': 'x', 'targets': []})
for n in L.idx.funcs.get(q, []):
    if not Index.has_body(n) or n['id'] in L.idx.pattern or sub not in n['type']['qualType']:
        continue
    print('function', q, n['type']['qualType'])
    body = L.body_of(n)
    counts = {}
    for c in body.get('inner', []):
        k = c.get('kind'); o = counts.get(k, 0); counts[k] = o + 1
        print('  %-22s #%d line %s' % (k, o, node_line(c)[1]))
    break
