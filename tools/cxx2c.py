#!/usr/bin/env python3
"""cxx2c: print a fixed C-like subset of clang's typed AST of /repo as C11.

Not a transpiler: every construct outside the subset raises Unsupported and
the unit aborts (exit 2 upstream).  Every rewrite that is not a verbatim
print is appended to self.log (the unit's lowering.log).

See DESIGN.md section 2 for the rule table.
"""
import re, sys, os, json, hashlib
from astload import load_ast, InfraError, REPO


class Unsupported(InfraError):
    pass


def where(n):
    for k in ('loc', 'range'):
        l = n.get(k)
        if isinstance(l, dict):
            if 'begin' in l:
                l = l['begin']
            if 'expansionLoc' in l:
                l = l['expansionLoc']
            if l.get('file'):
                return '%s:%s' % (l.get('file'), l.get('line'))
    return '?'


def node_line(n):
    l = n.get('range', {}).get('begin') or n.get('loc') or {}
    if 'expansionLoc' in l:
        l = l['expansionLoc']
    return l.get('file'), l.get('line')


# ----------------------------------------------------------------- types ---

BUILTIN = {
    'int': 'int', 'unsigned int': 'unsigned int', 'long': 'long', 'unsigned long': 'unsigned long',
    'long long': 'long long', 'unsigned long long': 'unsigned long long',
    'short': 'short', 'unsigned short': 'unsigned short', 'char': 'char',
    'signed char': 'signed char', 'unsigned char': 'unsigned char',
    'bool': '_Bool', 'double': 'double', 'float': 'float', 'void': 'void',
    'size_t': 'unsigned long', 'std::size_t': 'unsigned long',
    'uint32_t': 'unsigned int', 'int32_t': 'int', 'uint64_t': 'unsigned long',
    'int64_t': 'long', 'uint8_t': 'unsigned char', 'int8_t': 'signed char',
    'uint16_t': 'unsigned short', 'int16_t': 'short', 'ptrdiff_t': 'long',
    'std::ptrdiff_t': 'long', 'long double': 'long double', 'std::nullptr_t': 'void*',
    'nullptr_t': 'void*', 'std::memory_order': 'int', 'memory_order': 'int',
}

DROP_NS = ('manifold::', '(anonymous namespace)::', 'collider_internal::', '(anonymous)::')


def split_top(s, sep=','):
    out, depth, cur = [], 0, ''
    for ch in s:
        if ch in '<([':
            depth += 1
        elif ch in '>)]':
            depth -= 1
        if ch == sep and depth == 0:
            out.append(cur.strip())
            cur = ''
        else:
            cur += ch
    if cur.strip():
        out.append(cur.strip())
    return out


def strip_const_deep(s):
    s = re.sub(r'\b(const|volatile|struct|class|enum)\b', ' ', s)
    s = re.sub(r'\s+', ' ', s).strip()
    s = re.sub(r'\s*([<>,*&])\s*', r'\1', s)
    # bool template arguments: clang prints true/false in types but dumps 0/-1 as values
    s = re.sub(r'(?<=[<,])false(?=[,>])', '0', s)
    s = re.sub(r'(?<=[<,])(true|-1)(?=[,>])', '1', s)
    return s


def mangle(s):
    s = strip_const_deep(s)
    for ns in DROP_NS:
        s = s.replace(ns, '')
    s = s.replace('::', '_').replace('*', 'P').replace('&', 'R')
    s = re.sub(r'[<,]', '_', s).replace('>', '')
    s = re.sub(r'[^A-Za-z0-9_]', '_', s)
    s = re.sub(r'_+', '_', s).strip('_')
    return s


class Ty:
    """kind: 'b' builtin, 'rec', 'ptr', 'ref', 'arr', 'enum'"""

    def __init__(self, kind, name=None, to=None, n=None, key=None):
        self.kind, self.name, self.to, self.n, self.key = kind, name, to, n, key

    def is_ref(self):
        return self.kind == 'ref'

    def deref(self):
        return self.to if self.kind in ('ref', 'ptr') else self

    def noref(self):
        return self.to if self.kind == 'ref' else self

    def __repr__(self):
        return 'Ty(%s,%s,%s,%s)' % (self.kind, self.name, self.to, self.n)


# ------------------------------------------------------------------ index ---

DECL_CTX = ('NamespaceDecl', 'CXXRecordDecl', 'ClassTemplateSpecializationDecl', 'EnumDecl')


class Index:
    def __init__(self, root):
        self.root = root
        self.by_id = {}
        self.qname = {}        # id -> qualified name
        self.funcs = {}        # qname -> [nodes with body]
        self.records = {}      # normalized key -> node (complete definitions)
        self.records_all = {}  # normalized key -> all specializations sharing it (const variants)
        self.enums = {}        # qname -> node
        self.first_to_def = {}  # declaration id -> definition node
        self.pattern = set()   # ids of dependent (uninstantiated) decls
        self.parent = {}       # id -> enclosing decl id (lexical)
        self.aliases = {}      # alias name (plain and qualified) -> {underlying type strings}
        self.aliases_norm = {}
        self._walk(root, '', False, None)
        self._fix_out_of_line()

    def _targs(self, n):
        args = []
        for c in n.get('inner', []):
            if c.get('kind') == 'TemplateArgument':
                if 'type' in c:
                    args.append(c['type']['qualType'])
                elif 'value' in c:
                    args.append(str(c['value']))
                elif c.get('isExpr') or 'inner' in c:
                    args.append(self._const_of(c))
                else:
                    args.append('?')
        return args

    def _const_of(self, c):
        for x in c.get('inner', []):
            if 'value' in x:
                return str(x['value'])
            r = self._const_of(x)
            if r != '?':
                return r
        return '?'

    def _walk(self, n, ctx, dependent, parent_id):
        kind = n.get('kind')
        nid = n.get('id')
        if nid and nid in self.by_id and 'inner' not in n and 'loc' not in n:
            return   # reference-only repeat of a declaration dumped in full elsewhere
        if nid and kind and kind.endswith('Decl'):
            self.by_id[nid] = n
            self.parent[nid] = parent_id
        name = n.get('name')
        newctx, dep = ctx, dependent
        pdc = n.get('parentDeclContextId')
        if pdc and pdc in self.qname and self.by_id.get(pdc, {}).get('kind') in (
                'CXXRecordDecl', 'ClassTemplateSpecializationDecl') and kind != 'NamespaceDecl':
            # out-of-line definition of a member (class or function): semantic context
            ctx = self.qname[pdc] + '::'
            n['_semantic_parent'] = pdc
        if kind == 'NamespaceDecl':
            newctx = ctx + (name or '(anonymous namespace)') + '::'
        elif kind in ('CXXRecordDecl', 'ClassTemplateSpecializationDecl',
                      'ClassTemplatePartialSpecializationDecl'):
            if kind == 'ClassTemplatePartialSpecializationDecl':
                dep = True
            nm = name or ('_anon%s' % nid)
            if kind == 'ClassTemplateSpecializationDecl':
                nm = nm + '<' + ', '.join(self._targs(n)) + '>'
            q = ctx + nm
            self.qname[nid] = q
            if n.get('completeDefinition') and not dep:
                self.records.setdefault(strip_const_deep(q), n)
                self.records_all.setdefault(strip_const_deep(q), []).append(n)
            newctx = q + '::'
        elif kind == 'EnumDecl':
            q = ctx + (name or '_anon')
            self.qname[nid] = q
            self.enums[q] = n
            # enumerators: scoped or not, record both spellings
            for c in n.get('inner', []):
                if c.get('kind') == 'EnumConstantDecl':
                    self.by_id[c['id']] = c
                    self.parent[c['id']] = nid
        elif kind in ('FunctionDecl', 'CXXMethodDecl', 'CXXConstructorDecl',
                      'CXXConversionDecl', 'CXXDestructorDecl'):
            q = ctx + (name or '')
            self.qname[nid] = q
            if not dep:
                self.funcs.setdefault(q, []).append(n)
            # do not index into bodies for decl ctx, but do index local decls
            for c in n.get('inner', []):
                self._walk_body(c, nid, dep)
            return
        elif kind in ('VarDecl', 'FieldDecl', 'TypedefDecl', 'TypeAliasDecl'):
            self.qname[nid] = ctx + (name or '')
            if kind in ('TypedefDecl', 'TypeAliasDecl') and not dep and name and 'type' in n:
                tt = n['type'].get('desugaredQualType') or n['type'].get('qualType')
                if tt and tt != name:
                    self.aliases.setdefault(name, set()).add(tt)
                    self.aliases.setdefault(ctx + name, set()).add(tt)
                    self.aliases_norm.setdefault(strip_const_deep(ctx + name), set()).add(tt)
            for c in n.get('inner', []):
                self._walk_body(c, nid, dep)
            return
        elif kind in ('ClassTemplateDecl', 'FunctionTemplateDecl', 'VarTemplateDecl',
                      'TypeAliasTemplateDecl'):
            first = True
            for c in n.get('inner', []):
                ck = c.get('kind')
                if ck in ('TemplateTypeParmDecl', 'NonTypeTemplateParmDecl',
                          'TemplateTemplateParmDecl'):
                    continue
                if first and ck in ('CXXRecordDecl', 'FunctionDecl', 'CXXMethodDecl',
                                    'CXXConstructorDecl', 'VarDecl', 'TypeAliasDecl',
                                    'CXXConversionDecl'):
                    first = False
                    self._walk(c, ctx, True, nid)   # the pattern
                else:
                    self._walk(c, ctx, dependent, nid)
            return
        for c in n.get('inner', []):
            if isinstance(c, dict):
                self._walk(c, newctx, dep, nid if (nid and kind in DECL_CTX) else parent_id)

    def _walk_body(self, n, fid, dep):
        """index decls that live inside function bodies (locals, lambdas)."""
        kind = n.get('kind')
        nid = n.get('id')
        if nid and kind and kind.endswith('Decl'):
            self.by_id[nid] = n
            self.parent[nid] = fid
            if dep:
                self.pattern.add(nid)
        for c in n.get('inner', []):
            if isinstance(c, dict):
                self._walk_body(c, fid, dep)

    def _fix_out_of_line(self):
        # out-of-line definitions: qname from the semantic parent
        for q, lst in list(self.funcs.items()):
            for n in lst:
                pid = n.get('parentDeclContextId')
                if pid and pid in self.qname and self.by_id.get(pid, {}).get('kind') != 'NamespaceDecl':
                    nq = self.qname[pid] + '::' + n.get('name', '')
                    if nq != q:
                        self.qname[n['id']] = nq
                        self.funcs.setdefault(nq, []).append(n)
                        n['_semantic_parent'] = pid
        for n in self.by_id.values():
            prev = n.get('previousDecl')
            if prev and self.has_body(n):
                # chain back to the first declaration
                p = prev
                seen = 0
                while p and seen < 10:
                    self.first_to_def[p] = n
                    p = self.by_id.get(p, {}).get('previousDecl')
                    seen += 1

    @staticmethod
    def has_body(n):
        return any(c.get('kind') == 'CompoundStmt' for c in n.get('inner', []))

    def definition(self, did):
        n = self.by_id.get(did)
        if n is None:
            return None
        if self.has_body(n):
            return n
        d = self.first_to_def.get(did)
        if d is not None:
            return d
        return n

    def record_of_method(self, n):
        pid = n.get('_semantic_parent') or n.get('parentDeclContextId') or self.parent.get(n['id'])
        r = self.by_id.get(pid)
        hops = 0
        while r is not None and r.get('kind') in ('FunctionTemplateDecl', 'ClassTemplateDecl') and hops < 4:
            pid = r.get('parentDeclContextId') or self.parent.get(r['id'])
            r = self.by_id.get(pid)
            hops += 1
        return r


# --------------------------------------------------------------- lowering ---

INT_SUFFIX = {'unsigned int': 'u', 'long': 'L', 'unsigned long': 'UL', 'long long': 'LL',
              'unsigned long long': 'ULL', 'int': ''}

PASS_THROUGH = ('ExprWithCleanups', 'MaterializeTemporaryExpr', 'CXXBindTemporaryExpr',
                'ConstantExpr', 'SubstNonTypeTemplateParmExpr', 'ParenExpr_',
                'FullExpr')


class Fn:
    """a function being lowered"""

    def __init__(self, node, cname, kind='func'):
        self.node, self.cname, self.kind = node, cname, kind
        self.loops = 0
        self.tmps = []       # (ctype decl text)
        self.refvars = set()  # decl ids lowered as pointers
        self.captures = {}   # decl id -> (field name, is_pointer)
        self.this_field = None
        self.text = None
        self.proto = None
        self.record = None
        self.src = None
        self.region_ret = False
        self.names = {}
        self.loop_tmps = {}
        self.dropped = 0
        self.dropped_vars = set()
        self.region_param_ids = set()


class Lowerer:
    def __init__(self, root, spec=None, line_directives=True):
        self.idx = Index(root)
        self.spec = spec or {}
        self.log = []
        self.fns = {}          # decl id -> Fn
        self.fn_order = []
        self.by_cname = {}
        self.rec_defs = {}     # cname -> text
        self.rec_order = []
        self.rec_fwd = set()
        self.globals = {}      # decl id -> text
        self.global_order = []
        self.enum_consts = {}
        self.helpers = {}      # builtin helper name -> C text
        self.helper_order = []
        self.worklist = []
        self.cur = None
        self.line_directives = line_directives
        self.stubs = dict(self.spec.get('stubs', {}))   # qname or name -> cname (assumed contract)
        self.rename = dict(self.spec.get('rename', {}))
        self.stub_protos = {}
        self.drop_calls = set(self.spec.get('drop_calls', []))
        self.struct_copy_ok = set()
        self.stubs_used = set()
        self.recorders = {}
        self.recorder_names = set()

    # ---- types
    def ty(self, tnode_or_str):
        if isinstance(tnode_or_str, dict):
            s = tnode_or_str.get('desugaredQualType') or tnode_or_str.get('qualType')
        else:
            s = tnode_or_str
        return self.parse_type(s)

    def parse_type(self, s):
        s = s.strip()
        mra = re.match(r'^(.*?)\s*\(&\)\s*((\[\d+\])+)$', s)
        if mra:
            return Ty('ref', to=self.parse_type(mra.group(1).strip() + mra.group(2)))      # reference to array
        if s.endswith('&&'):
            return Ty('ref', to=self.parse_type(s[:-2]))
        if s.endswith('&'):
            return Ty('ref', to=self.parse_type(s[:-1]))
        # trailing qualifiers
        m = re.match(r'^(.*?)\s*\b(const|volatile|__restrict)$', s)
        if m and not s.endswith('>'):
            return self.parse_type(m.group(1))
        if s.endswith('*'):
            return Ty('ptr', to=self.parse_type(s[:-1]))
        if s.endswith(']'):
            i = s.rindex('[')
            # innermost-last: T[a][b] -> arr(arr(T,b),a): handle single dim mostly
            n = s[i + 1:-1].strip()
            base = s[:i]
            if base.rstrip().endswith(']'):
                # multi-dim: T[a][b] is array a of array b of T
                j = base.rindex('[')
                inner = self.parse_type(base[:j] + '[' + n + ']')
                return Ty('arr', to=inner, n=base[j + 1:-1].strip())
            return Ty('arr', to=self.parse_type(base), n=n)
        msp = re.match(r'^(const\s+)?std::(shared_ptr|__shared_ptr|__shared_ptr_access)<(.*)>$', s)
        if msp:
            self.note('std::shared_ptr<T> lowered to T* (ownership and reference counting are not modelled)')
            return Ty('ptr', to=self.parse_type(split_top(msp.group(3))[0]))
        mit = re.match(r'^(const\s+)?__gnu_cxx::__normal_iterator<(.*)>$', s)
        if mit:
            # std::vector<T>::iterator is a thin wrapper around T* (libstdc++); the vector model hands out raw pointers
            self.note('std::vector iterator lowered to a raw element pointer')
            return self.parse_type(split_top(mit.group(2))[0])
        if re.match(r'^(const\s+)?std::function<', s):
            return Ty('rec', name='std_function_opaque', key='std::function<opaque>')
        if '(' in s and not s.startswith('(anonymous') and '(anonymous namespace)' not in s and '(lambda' not in s:
            raise Unsupported('function/pointer-to-function type %r' % s)
        s2 = re.sub(r'^(\s*\b(const|volatile|struct|class|enum|typename)\b\s*)+', '', s).strip()
        s2 = self.resolve_aliases(s2)
        s2 = re.sub(r'^(\s*\b(const|volatile|struct|class|enum|typename)\b\s*)+', '', s2).strip()
        if s2 != s and (s2.endswith(('*', '&', ']')) or re.search(r'\bconst$', s2)):
            return self.parse_type(s2)
        if s2 in BUILTIN:
            return Ty('b', name=BUILTIN[s2])
        key = strip_const_deep(s2)
        # enum?
        for q in (s2, 'manifold::' + s2):
            if q in self.idx.enums:
                e = self.idx.enums[q]
                under = e.get('fixedUnderlyingType', {}).get('desugaredQualType') or \
                    e.get('fixedUnderlyingType', {}).get('qualType') or 'int'
                return Ty('enum', name=BUILTIN.get(under, 'int'), key=q)
        key = self.canon_record(key)
        return Ty('rec', name=mangle(key), key=key)

    def resolve_aliases(self, s):
        """replace typedef / alias names the AST left unresolved (reference and
        template-argument positions) by their underlying types"""
        al = self.idx.aliases
        m = re.match(r'^(.*>)::([A-Za-z_]\w*)$', s)
        if m:
            und = self.idx.aliases_norm.get(strip_const_deep(s))
            if und and len(und) == 1:
                return self.resolve_aliases(next(iter(und)))
        for _ in range(6):
            changed = False

            def rep(m):
                nonlocal changed
                tok = m.group(0)
                if tok in BUILTIN:
                    return tok
                if tok.startswith('la::'):
                    changed = True
                    return 'linalg::' + tok[4:]
                und = al.get(tok)
                if und is None and '::' in tok and not tok.startswith(('manifold::', 'std::', 'linalg::', 'tbb::')):
                    und = al.get('manifold::' + tok)
                if und and len(und) == 1:
                    changed = True
                    return next(iter(und))
                return tok
            s2 = re.sub(r'[A-Za-z_][A-Za-z_0-9]*(::[A-Za-z_][A-Za-z_0-9]*)*', rep, s)
            s2 = re.sub(r'\bSharedVec<(.*)>', lambda m: 'manifold::Vec<%s, true>' % m.group(1), s2)
            if not changed and s2 == s:
                break
            s = s2
        return s

    def canon_record(self, key):
        """resolve sugar the AST left in a type string: missing namespaces and
        defaulted template arguments (Vec<int> == manifold::Vec<int,0>)"""
        recs = self.idx.records
        if key in recs or key.startswith('std::') or key.startswith('(lambda'):
            return key
        c = self._canon_cache.get(key)
        if c:
            return c
        cands = [k for k in recs if k == key or k.endswith('::' + key)]
        if not cands and key.startswith('manifold::') and key[len('manifold::'):] in recs:
            # an explicit instantiation written at global scope is indexed without the namespace
            cands = [key[len('manifold::'):]]
        if not cands and '<' in key:
            head, args = key.split('<', 1)
            args = args[:-1]
            for k in recs:
                if '<' not in k:
                    continue
                h2, a2 = k.split('<', 1)
                if (h2 == head or h2.endswith('::' + head)) and a2[:-1].startswith(args + ','):
                    cands.append(k)
        if len(cands) == 1:
            self._canon_cache[key] = cands[0]
            return cands[0]
        if len(cands) > 1:
            # prefer the one whose extra arguments are all 0 (defaults in this code base)
            z = [k for k in cands if re.fullmatch(r'.*<.*?((,0)*)>', k) and k.split('<', 1)[1][:-1].endswith(',0')]
            if len(z) == 1:
                self._canon_cache[key] = z[0]
                return z[0]
        return key

    _canon_cache = {}

    def cty(self, t):
        """C type text for non-array types"""
        if t.kind == 'b' or t.kind == 'enum':
            return t.name
        if t.kind == 'rec':
            self.need_record(t)
            return 'struct ' + t.name
        if t.kind in ('ptr', 'ref'):
            if t.to.kind == 'rec':
                self.rec_fwd.add(t.to.name)
                if t.to.name not in self.rec_defs:
                    # pointer to record: definition only if available
                    try:
                        self.need_record(t.to)
                    except Unsupported:
                        pass
                return 'struct ' + t.to.name + '*'
            if t.to.kind == 'arr':
                raise Unsupported('pointer to array')
            return self.cty(t.to) + '*'
        if t.kind == 'arr':
            raise Unsupported('array type in value position')
        raise Unsupported('type %r' % t)

    def cdecl(self, t, name):
        if t.kind == 'ptr' and t.to.kind == 'arr':
            # pointer to array (a by-reference capture / parameter of array type):  T (*name)[N]
            a = t.to
            dims = ''
            while a.kind == 'arr':
                dims += '[%s]' % a.n
                a = a.to
            return '%s (*%s)%s' % (self.cty(a), name, dims)
        if t.kind == 'arr':
            dims = ''
            while t.kind == 'arr':
                dims += '[%s]' % t.n
                t = t.to
            return '%s %s%s' % (self.cty(t), name, dims)
        return '%s %s' % (self.cty(t), name)

    # ---- records
    def need_record(self, t):
        if t.name in self.rec_defs:
            return
        self.rec_defs[t.name] = None   # in progress
        key = t.key
        fields = []
        m = re.match(r'^std::pair<(.*)>$', key)
        if m:
            parts = split_top(m.group(1))
            if len(parts) != 2:
                raise Unsupported('std::pair type %s is not a plain two-argument pair' % key)
            a, b = parts
            fields = [(self.parse_type(a), 'first'), (self.parse_type(b), 'second')]
            self.note('builtin record model std::pair -> {first,second}')
        elif re.match(r'^std::array<(.*)>$', key):
            a, n = split_top(key[len('std::array<'):-1])
            fields = [(Ty('arr', to=self.parse_type(a), n=n.rstrip('UL')), '_M_elems')]
            self.note('builtin record model std::array<T,N> -> {T _M_elems[N]}')
        elif re.match(r'^std::atomic<(.*)>$', key):
            a = key[len('std::atomic<'):-1]
            fields = [(self.parse_type(a), '_v')]
            self.note('builtin record model std::atomic<T> -> {T _v} (sequential, seq_cst)')
        elif re.match(r'^tbb::(detail::d\d+::)?blocked_range<(.*)>$', key):
            a = re.match(r'^tbb::(detail::d\d+::)?blocked_range<(.*)>$', key).group(2)
            fields = [(self.parse_type(a), '_begin'), (self.parse_type(a), '_end')]
            self.note('builtin record model tbb::blocked_range<T> -> {_begin,_end} (trusted)')
        elif re.match(r'^tbb::(detail::)?(d\d+::)?(pre_scan_tag|final_scan_tag|split)$', key):
            fields = []
        elif key == 'std::function<opaque>':
            fields = []
            self.note('std::function objects are opaque (never called in lowered code)')
        elif re.match(r'^std::map<(.*)>$', key) and self.spec.get('model_std_map'):
            kv = split_top(key[len('std::map<'):-1])
            et = self.parse_type('std::pair<%s,%s>' % (kv[0], kv[1]))
            fields = [(Ty('ptr', to=et), '_data'), (Ty('b', name='unsigned long'), '_size'), (Ty('b', name='unsigned long'), '_cap')]
            self.note('builtin record model std::map<K,V> -> {pair<K,V>* _data; size_t _size; size_t _cap}: an association list with unique keys in a buffer of fixed capacity supplied by the harness; iteration order is storage order, not key order (trusted)')
        elif re.match(r'^std::vector<(.*)>$', key):
            a = split_top(key[len('std::vector<'):-1])[0]
            fields = [(Ty('ptr', to=self.parse_type(a)), '_data'), (Ty('b', name='unsigned long'), '_size'),
                      (Ty('b', name='unsigned long'), '_cap')]
            self.note('builtin record model std::vector<T> -> {T* _data; size_t _size; size_t _cap} (trusted)')
        else:
            n = self.idx.records.get(key)
            if n is None and key.startswith('(lambda at '):
                lam = self.lambda_by_type(key)
                if lam is not None:
                    del self.rec_defs[t.name]
                    self.request_closure(lam)
                    if self.rec_defs.get(t.name):
                        return
                    raise Unsupported('closure type %r could not be lowered' % key)
            if n is None:
                # try with manifold:: prefix variants
                for k2, v in self.idx.records.items():
                    if k2.endswith('::' + key) or k2 == key:
                        n = v
                        break
            if n is None:
                del self.rec_defs[t.name]
                raise Unsupported('record type %r has no definition in the repo AST' % key)
            bi = 0
            for b in n.get('bases', []):
                bt = self.ty(b['type'])
                if bt.kind != 'rec':
                    raise Unsupported('base %r' % b)
                try:
                    self.need_record(bt)
                except Unsupported:
                    if bt.key.startswith('std::'):
                        continue
                    raise
                if self.rec_fields.get(bt.name):
                    fields.append((bt, '_base%d' % bi))
                bi += 1
            for c in n.get('inner', []):
                if c.get('kind') == 'FieldDecl':
                    ft = self.ty(c['type'])
                    fname = c.get('name') or ('_f%d' % len(fields))
                    if c.get('isBitfield'):
                        raise Unsupported('bitfield')
                    fields.append((ft, fname))
        lines = []
        for ft, fname in fields:
            try:
                lines.append('  %s;' % self.cdecl(ft.noref() if ft.kind != 'ref' else Ty('ptr', to=ft.to), fname))
            except Unsupported as e:
                # unsupported field types are kept opaque; reading them aborts later
                lines.append('  /* opaque field %s: %s */' % (fname, e))
        if not any(not l.strip().startswith('/*') for l in lines):
            lines.append('  char _empty;')
        self.rec_fields[t.name] = [f for _, f in fields]
        if not hasattr(self, 'rec_ref_fields'):
            self.rec_ref_fields = {}
        self.rec_ref_fields[t.name] = [ft.kind == 'ref' for ft, _ in fields]
        self.rec_defs[t.name] = 'struct %s {\n%s\n};' % (t.name, '\n'.join(lines))
        self.rec_order.append(t.name)

    rec_fields = {}

    def note(self, msg):
        if msg not in self.log:
            self.log.append(msg)

    # ---- function naming / discovery
    def cname_for(self, n):
        nid = n['id']
        if nid in self.fns:
            return self.fns[nid].cname
        q = self.idx.qname.get(nid, n.get('name', 'fn'))
        if q in self.rename:
            base = self.rename[q]
        else:
            base = mangle(q)
            base = {'operator[]': 'index', 'operator()': 'call'}.get(n.get('name'), None) and \
                mangle(q.rsplit('::', 1)[0]) + '_' + {'operator[]': 'index', 'operator()': 'call'}[n['name']] or base
            if n.get('name', '').startswith('operator') and n['name'] not in ('operator[]', 'operator()'):
                opn = {'<': 'lt', '>': 'gt', '==': 'eq', '!=': 'ne', '<=': 'le', '>=': 'ge', '+': 'add',
                       '-': 'sub', '*': 'mul', '/': 'div', '=': 'assign', '+=': 'addeq', '-=': 'subeq',
                       '*=': 'muleq', '/=': 'diveq', '%': 'mod', '!': 'not', '&&': 'and', '||': 'or',
                       '++': 'inc', '--': 'dec', '->': 'arrow', '<<': 'shl', '>>': 'shr', '&': 'band',
                       '|': 'bor', '^': 'xor', '~': 'bnot'}.get(n['name'][8:].strip())
                if opn is None:
                    opn = 'conv_' + mangle(n['name'][8:])
                owner = q.rsplit('::', 1)[0] if '::' in q else ''
                base = (mangle(owner) + '_' if owner else '') + 'op_' + opn
            if n.get('kind') == 'CXXConstructorDecl':
                base = mangle(q.rsplit('::', 1)[0]) + '_ctor'
        if n.get('kind') == 'CXXMethodDecl' and n['type']['qualType'].rstrip().endswith('const'):
            rec = self.idx.record_of_method(n)
            sig = n['type']['qualType']
            params = sig[sig.find('('): sig.rfind(')') + 1]
            for sib in (rec or {}).get('inner', []):
                if sib.get('kind') == 'CXXMethodDecl' and sib.get('name') == n.get('name') and sib['id'] != n['id']:
                    ss = sib['type']['qualType']
                    if ss[ss.find('('): ss.rfind(')') + 1] == params and not ss.rstrip().endswith('const'):
                        base += '_c'
                        break
        # disambiguate overloads by parameter types
        name = base
        if name in self.by_cname and self.by_cname[name] != nid:
            sig = n['type']['qualType']
            params = sig[sig.find('(') + 1: sig.rfind(')')]
            name = base + '_' + (mangle(params) or 'void')
            k = 2
            while name in self.by_cname and self.by_cname[name] != nid:
                # identical lowered instantiations (const/non-const): dedupe later by text
                name = '%s_%d' % (base + '_' + (mangle(params) or 'void'), k)
                k += 1
        return name

    def request_fn(self, n, cname=None, kind='func'):
        nid = n['id']
        if nid in self.fns:
            return self.fns[nid]
        cname = cname or self.cname_for(n)
        f = Fn(n, cname, kind)
        self.fns[nid] = f
        self.by_cname[cname] = nid
        self.worklist.append(f)
        return f

    def lower_now(self, f):
        """skeleton mode: lower a callee (and what it needs) eagerly so that a callee outside the
        subset drops the calling statement instead of aborting the unit"""
        save_cur = self.cur
        mark_fns = set(self.fns)
        mark_order = len(self.fn_order)
        base = [x for x in self.worklist if x is not f]
        try:
            self.worklist = [f]
            while self.worklist:
                g = self.worklist.pop(0)
                g.skeleton_callee = True
                self.lower_fn(g)
                self.fn_order.append(g)
        except Unsupported:
            for k in (set(self.fns) - mark_fns) | {f.node['id']}:
                if k in self.fns:
                    self.by_cname.pop(self.fns[k].cname, None)
                    del self.fns[k]
            del self.fn_order[mark_order:]
            raise
        finally:
            self.worklist = base
            self.cur = save_cur

    # ---- driver
    def run(self):
        for q in self.spec.get('export_globals', []):
            hits = [n for i, n in self.idx.by_id.items() if n.get('kind') == 'VarDecl' and self.idx.qname.get(i) == q]
            if not hits:
                raise InfraError('contract no longer attached: global %s not found' % q)
            self.cur = Fn(hits[0], '__export')
            self.global_var(hits[0])
            self.cur = None
        while self.worklist:
            f = self.worklist.pop(0)
            self.lower_fn(f)
            self.fn_order.append(f)

    # ---- function lowering
    def params_of(self, n):
        return [c for c in n.get('inner', []) if c.get('kind') == 'ParmVarDecl']

    def body_of(self, n):
        for c in n.get('inner', []):
            if c.get('kind') == 'CompoundStmt':
                return c
        return None

    def ret_type(self, n):
        sig = n['type'].get('desugaredQualType') or n['type']['qualType']
        # return type is text before the top-level '('
        depth = 0
        for i, ch in enumerate(sig):
            if ch == '<':
                depth += 1
            elif ch == '>':
                depth -= 1
            elif ch == '(' and depth == 0 and not sig[i:].startswith('(anonymous') and not sig[i:].startswith('(lambda'):
                rt = sig[:i].strip()
                if rt == 'auto' or 'auto' in rt.split():
                    raise Unsupported('undeduced auto return in %s' % sig)
                return self.parse_type(rt)
        raise Unsupported('cannot parse signature %r' % sig)

    def ret_type_of(self, f):
        """declared return type; when the signature carries unresolved sugar
        (enable_if_t, apply_t, ...) fall back to the type clang gave the call expression"""
        try:
            rt = self.ret_type(f.node)
            base = rt.to if rt.kind == 'ref' else rt
            if base.kind == 'rec' and base.key not in self.idx.records and not base.key.startswith(
                    ('std::pair<', 'std::array<', 'std::vector<', 'std::atomic<')):
                raise Unsupported('sugar')
            return rt
        except Unsupported:
            if hasattr(f, 'ret_hint'):
                return f.ret_hint
            if f.kind == 'lambda':
                # deduced return type of a lambda that no lowered call site has typed yet: from its return statements
                rets = []
                def walk(n):
                    if n.get('kind') == 'ReturnStmt':
                        rets.append(n)
                    for x in n.get('inner', []):
                        if isinstance(x, dict) and x.get('kind') != 'LambdaExpr':
                            walk(x)
                body = self.body_of(f.node)
                if body is not None:
                    walk(body)
                vals = [r['inner'][0] for r in rets if r.get('inner')]
                if not vals:
                    return Ty('b', name='void')
                return self.ty(vals[0]['type']).noref()
            raise

    def is_static_method(self, n):
        seen = 0
        while n is not None and seen < 8:
            if n.get('storageClass') == 'static':
                return True
            n = self.idx.by_id.get(n.get('previousDecl'))
            seen += 1
        return False

    def lower_fn(self, f):
        n = f.node
        self.cur = f
        kind = n.get('kind')
        params = []
        rec = None
        if f.kind == 'lambda':
            rec_t = f.closure_ty
            params.append('struct %s* self' % rec_t)
        elif kind in ('CXXMethodDecl', 'CXXConstructorDecl', 'CXXConversionDecl') and not self.is_static_method(n):
            rec = self.idx.record_of_method(n)
            if rec is None:
                raise Unsupported('method without record: %s' % self.idx.qname.get(n['id']))
            rq = self.idx.qname[rec['id']]
            rt = self.parse_type(rq)
            f.record = rt
            f.self_ctype = self.cty(rt)
            if kind != 'CXXConstructorDecl' or getattr(f, 'ctor_as_method', False):
                params.append('%s* self' % self.cty(rt))
        for vname in getattr(f, 'region_params', []):
            hits = []
            def findv(x):
                if x.get('kind') == 'VarDecl' and x.get('name') == vname:
                    hits.append(x)
                for y in x.get('inner', []):
                    if isinstance(y, dict):
                        findv(y)
            findv(n)
            if len(hits) != 1:
                raise InfraError('contract no longer attached: region parameter %s found %d times in %s' % (vname, len(hits), f.cname))
            vt = self.ty(hits[0]['type'])
            if not self.resolvable(vt):
                ini = [x for x in hits[0].get('inner', []) if isinstance(x, dict) and 'type' in x]
                if ini:
                    vt = self.ty(ini[0]['type']).noref()
            self.note('region of %s: local %s becomes a parameter (its value on entry is arbitrary)' % (f.cname, vname))
            if vt.kind == 'ref':
                f.refvars.add(hits[0]['id'])
                params.append(self.cdecl(Ty('ptr', to=vt.to), vname))
            else:
                params.append(self.cdecl(vt, vname))
            f.region_param_ids.add(hits[0]['id'])
        for p in self.params_of(n):
            pt = self.ty(p['type'])
            pname = p.get('name') or ('_unused%d' % len(params))
            f.names[p['id']] = pname
            if pt.kind == 'ref':
                f.refvars.add(p['id'])
                params.append(self.cdecl(Ty('ptr', to=pt.to), pname))
            else:
                params.append(self.cdecl(pt, pname))
        if kind == 'CXXConstructorDecl' and getattr(f, 'ctor_as_method', False):
            kind = 'CXXMethodDecl'
            rett = Ty('b', name='void')
            retc = 'void'
            f.void_ctor = True
            self.note('constructor %s lowered as a method on an existing object: member initialisers dropped, entry state unconstrained' % f.cname)
        elif kind == 'CXXConstructorDecl':
            rett = f.record
            retc = self.cty(rett)
        elif f.kind == 'region':
            retc = 'int'
            rett = Ty('b', name='int')
        else:
            rett = self.ret_type_of(f)
            retc = self.cty(Ty('ptr', to=rett.to) if rett.kind == 'ref' else rett)
        f.rett = rett
        body = self.body_of(n)
        if body is None:
            raise Unsupported('function %s has no body in this TU (%s)' % (f.cname, where(n)))
        out = []
        if kind == 'CXXConstructorDecl':
            out.append('  %s self_v; %s* self = &self_v;' % (retc, retc))
            out += self.ctor_inits(n, f)
        btxt = self.stmt(body, 1, top=True)
        if kind == 'CXXConstructorDecl':
            btxt = btxt.rstrip()
            assert btxt.endswith('}')
            btxt = btxt[:-1] + '  return self_v;\n}'
        head = '%s %s(%s)' % (retc, f.cname, ', '.join(params) if params else 'void')
        f.proto = head + ';'
        tmpdecl = ''.join('  %s;\n' % t for t in f.tmps)
        # splice temps + ctor inits after the opening brace
        assert btxt.lstrip().startswith('{')
        i = btxt.index('{')
        inj = self.spec.get('inject_entry', {}).get(f.cname)
        if inj:
            self.note('injected at entry of %s: %s' % (f.cname, inj))
            out.append('  ' + inj)
        pre = tmpdecl + ('\n'.join(out) + '\n' if out else '')
        btxt = btxt[:i + 1] + '\n' + pre + btxt[i + 1:]
        guards = ''.join('#ifndef LOOPSPEC_%s_%d\n#define LOOPSPEC_%s_%d\n#endif\n' % (f.cname, k, f.cname, k)
                         for k in range(f.loops))
        for k in range(f.loops):
            tl = f.loop_tmps.get(k, [])
            guards += '#define LOOPTMPS_%s_%d %s\n' % (f.cname, k, ''.join(', ' + t for t in tl))
        for k in range(f.dropped):
            guards += '#ifndef DROPPED_STMT_%s_%d\n#define DROPPED_STMT_%s_%d ((void)0)\n#endif\n' % (f.cname, k, f.cname, k)
        if getattr(f, 'self_ctype', None):
            # stable name for the receiver type (instantiations over lambda types embed a source position)
            guards += '#define SELFTYPE_%s %s\n' % (f.cname, f.self_ctype)
        guards += '#ifndef FNSPEC_%s\n#define FNSPEC_%s\n#endif\n' % (f.cname, f.cname)
        guards += '#ifndef CANARYSPEC_%s\n#define CANARYSPEC_%s\n#endif\n' % (f.cname, f.cname)
        fl, ln = node_line(n)
        f.src = (fl, ln)
        f.text = '/* %s  from %s */\n%s%s\nFNSPEC_%s CANARYSPEC_%s\n%s\n' % (
            self.idx.qname.get(n['id'], f.cname), where(n), guards, head, f.cname, f.cname, btxt)
        self.cur = None

    def ctor_inits(self, n, f):
        out = []
        rec = self.idx.record_of_method(n)
        inited = set()
        for c in n.get('inner', []):
            if c.get('kind') != 'CXXCtorInitializer':
                continue
            init = c.get('inner', [None])[0]
            if 'anyInit' in c:
                fname = c['anyInit']['name']
                inited.add(fname)
                if init is not None and init.get('kind') == 'CXXDefaultInitExpr':
                    fd = self.idx.by_id.get(c['anyInit']['id'])
                    ini = [x for x in fd.get('inner', []) if 'valueCategory' in x]
                    if not ini:
                        raise Unsupported('default member init missing for %s' % fname)
                    init = ini[0]
                fty = self.ty(c['anyInit']['type'])
                if fty.kind == 'ref':
                    out.append('  self->%s = %s;' % (fname, self.addr(init)))
                else:
                    out.append('  self->%s = %s;' % (fname, self.init_expr(init, fty)))
            elif 'baseInit' in c:
                bt = self.ty(c['baseInit'])
                self.need_record(bt)
                if self.rec_fields.get(bt.name):
                    out.append('  self->_base0 = %s;' % self.expr(init))
            else:
                # delegating constructor
                out.append('  self_v = %s;' % self.expr(init))
        # fields with default member initialisers not mentioned: clang lists them all, nothing to do
        return out

    def init_expr(self, e, t):
        if e.get('kind') == 'ImplicitValueInitExpr':
            return self.zero_of(t)
        return self.expr(e)

    def zero_of(self, t):
        if t.kind in ('b', 'enum'):
            return '0'
        if t.kind in ('ptr',):
            return '((void*)0)'
        if t.kind == 'rec':
            return '(%s){0}' % self.cty(t)
        raise Unsupported('zero of %r' % t)

    # ---- statements
    def ind(self, d):
        return '  ' * d

    def line(self, n):
        if not self.line_directives:
            return ''
        fl, ln = node_line(n)
        if fl and ln and fl.startswith('/'):
            return '#line %d "%s"\n' % (ln, fl)
        return ''

    def stmt(self, n, d, top=False):
        k = n.get('kind')
        I = self.ind(d)
        if k == 'CompoundStmt':
            kfrom = getattr(self.cur, 'keep_from_call', None) if top else None
            if kfrom:
                # region = every top-level statement from the one containing a call to `kfrom` to the end
                parts, on = [], False
                for c in n.get('inner', []):
                    if not on and self.mentions_call(c, kfrom):
                        on = True
                        self.note('region of %s starts at the call to %s at %s: earlier statements are not lowered here' % (self.cur.cname, kfrom, where(c)))
                    if on:
                        parts.append(self.skel_stmt(c, d + 1) if getattr(self.cur, 'skeleton', False) else self.stmt(c, d + 1))
                    else:
                        # declarations before the region become unavailable
                        if c.get('kind') == 'DeclStmt':
                            for x in c.get('inner', []):
                                if x.get('kind') == 'VarDecl' and x.get('name'):
                                    self.cur.dropped_vars.add(x['name'])
                if not on:
                    raise InfraError('contract no longer attached: region start call %s not found in %s' % (kfrom, self.cur.cname))
                return '%s{\n%s%s}\n' % (self.ind(d - 1), ''.join(parts), self.ind(d - 1))
            after = getattr(self.cur, 'keep_after', None) if top else None
            if after:
                # region = every top-level statement AFTER the (kind, ordinal) one, to the end of the body
                counts, parts, hit = {}, [], False
                for c in n.get('inner', []):
                    ck = c.get('kind')
                    o = counts.get(ck, 0)
                    counts[ck] = o + 1
                    if hit:
                        parts.append(self.skel_stmt(c, d + 1) if getattr(self.cur, 'skeleton', False) else self.stmt(c, d + 1))
                    elif (ck, o) == tuple(after):
                        hit = True
                        self.note('region of %s starts after top-level %s #%d at %s: the statements before it are not lowered' % (self.cur.cname, ck, o, where(c)))
                if not hit:
                    raise InfraError('contract no longer attached: region start %s not found in %s' % (after, self.cur.cname))
                parts.append(self.ind(d + 1) + 'REGION_FALLTHROUGH;\n')
                if self.cur.rett.kind != 'b' or self.cur.rett.name != 'void':
                    parts.append(self.ind(d + 1) + '{ %s; return __region_ret; }\n' % self.cdecl(self.cur.rett.noref(), '__region_ret'))
                return '%s{\n%s%s}\n' % (self.ind(d - 1), ''.join(parts), self.ind(d - 1))
            until = getattr(self.cur, 'keep_until', None) if top else None
            if until:
                # region = every top-level statement before the (kind, ordinal) one
                counts, parts, hit = {}, [], False
                for c in n.get('inner', []):
                    ck = c.get('kind')
                    o = counts.get(ck, 0)
                    counts[ck] = o + 1
                    if (ck, o) == tuple(until):
                        hit = True
                        self.note('region of %s ends before top-level %s #%d at %s: the rest of the body is not lowered' % (self.cur.cname, ck, o, where(c)))
                        break
                    parts.append(self.skel_stmt(c, d + 1) if getattr(self.cur, 'skeleton', False) else self.stmt(c, d + 1))
                if not hit:
                    raise InfraError('contract no longer attached: region end %s not found in %s' % (until, self.cur.cname))
                for x in getattr(self.cur, 'export_locals', []):
                    parts.append(self.ind(d + 1) + 'EXPORT_LOCAL(%s);\n' % x)
                parts.append(self.ind(d + 1) + 'REGION_FALLTHROUGH;\n')
                if self.cur.rett.kind != 'b' or self.cur.rett.name != 'void':
                    rn = getattr(self.cur, 'region_return', None)
                    if rn:
                        parts.append(self.ind(d + 1) + 'return %s;\n' % rn)
                    else:
                        parts.append(self.ind(d + 1) + '{ %s; return __region_ret; }\n' % self.cdecl(self.cur.rett.noref(), '__region_ret'))
                return '%s{\n%s%s}\n' % (self.ind(d - 1), ''.join(parts), self.ind(d - 1))
            keep = getattr(self.cur, 'keep_top', None) if top else None
            if keep:
                # region = the listed top-level statements of the function (kind, ordinal among that kind)
                want = set((k2, o2) for k2, o2 in keep)
                counts, parts, found = {}, [], set()
                for c in n.get('inner', []):
                    ck = c.get('kind')
                    o = counts.get(ck, 0)
                    counts[ck] = o + 1
                    if (ck, o) in want:
                        parts.append(self.stmt(c, d + 1))
                        found.add((ck, o))
                    else:
                        self.note('region of %s: top-level %s #%d at %s not lowered' % (self.cur.cname, ck, o, where(c)))
                if found != want:
                    raise InfraError('contract no longer attached: region statements %s not found in %s' % (sorted(want - found), self.cur.cname))
                for x in getattr(self.cur, 'export_locals', []):
                    parts.append(self.ind(d + 1) + 'EXPORT_LOCAL(%s);\n' % x)
                parts.append(self.ind(d + 1) + 'REGION_FALLTHROUGH;\n')
                if self.cur.rett.kind != 'b' or self.cur.rett.name != 'void':
                    parts.append(self.ind(d + 1) + '{ %s; return __region_ret; }\n' % self.cdecl(self.cur.rett.noref() if self.cur.rett.kind != 'ref' else Ty('ptr', to=self.cur.rett.to), '__region_ret'))
                return '%s{\n%s%s}\n' % (self.ind(d - 1), ''.join(parts), self.ind(d - 1))
            trunc = getattr(self.cur, 'truncate_after', None) if top else None
            if trunc:
                parts = []
                for c in n.get('inner', []):
                    parts.append(self.stmt(c, d + 1))
                    if self.mentions_call(c, trunc):
                        self.note('function %s truncated after the call to %s at %s: the rest of the body is not lowered' % (self.cur.cname, trunc, where(c)))
                        parts.append(self.ind(d + 1) + 'return;\n')
                        break
                else:
                    raise InfraError('contract no longer attached: truncation call %s not found in %s' % (trunc, self.cur.cname))
                body = ''.join(parts)
                return '%s{\n%s%s}\n' % (self.ind(d - 1), body, self.ind(d - 1))
            if getattr(self.cur, 'skeleton', False):
                body = ''.join(self.skel_stmt(c, d + 1) for c in n.get('inner', []))
            else:
                body = ''.join(self.stmt(c, d + 1) for c in n.get('inner', []))
            return '%s{\n%s%s}\n' % (self.ind(d - 1) if top else I, body, self.ind(d - 1) if top else I)
        if k == 'NullStmt':
            return I + ';\n'
        if k == 'DeclStmt':
            return ''.join(self.local_decl(c, d) for c in n.get('inner', []))
        if k == 'ReturnStmt':
            f = self.cur
            inner = n.get('inner', [])
            if f.kind == 'region':
                if inner:
                    raise Unsupported('region with value return')
                return self.line(n) + I + 'return 1;\n'
            if not inner:
                return self.line(n) + I + 'return;\n'
            e = inner[0]
            if f.rett.kind == 'ref':
                return self.line(n) + I + 'return %s;\n' % self.addr(e)
            if f.node.get('kind') == 'CXXConstructorDecl' and not getattr(f, 'void_ctor', False):
                return self.line(n) + I + 'return self_v;\n'
            return self.line(n) + I + 'return %s;\n' % self.expr(e)
        if k == 'IfStmt':
            inner = list(n.get('inner', []))
            pre = ''
            if n.get('hasInit'):
                pre = self.stmt(inner.pop(0), d + 1)
            if n.get('hasVar'):
                raise Unsupported('if with condition variable at %s' % where(n))
            cond = inner[0]
            then = inner[1] if len(inner) > 1 else None
            els = inner[2] if len(inner) > 2 else None
            if n.get('isConstexpr'):
                val = self.const_value(cond)
                if val is None:
                    raise Unsupported('if constexpr with non-constant condition at %s' % where(n))
                self.note('if constexpr folded to %s branch at %s' % ('then' if val else 'else', where(n)))
                chosen = then if val else els
                if chosen is None or chosen.get('kind') == 'NullStmt':
                    return ''
                return self.stmt(chosen, d)
            try:
                ctext = self.expr(cond)
            except Unsupported as ex:
                if not getattr(self.cur, 'skeleton', False):
                    raise
                self.note('SKELETON: condition at %s replaced by an arbitrary choice (%s)' % (where(n), str(ex)[:120]))
                ctext = 'nondet_bool()'
            s = self.line(n) + I + 'if (%s)\n' % ctext
            s += self.block(then, d)
            if els is not None:
                s += I + 'else\n' + self.block(els, d)
            if pre:
                s = I + '{\n' + pre + s + I + '}\n'
            return s
        if k in ('WhileStmt', 'DoStmt', 'ForStmt'):
            f = self.cur
            lid = f.loops
            f.loops += 1
            spec = 'LOOPSPEC_%s_%d' % (f.cname, lid)
            inner = n.get('inner', [])
            t0 = len(f.tmps)
            try:
                return self.loop_stmt(n, k, d, I, f, lid, spec, inner)
            finally:
                f.loop_tmps[lid] = ['__tmp%d' % x for x in range(t0, len(f.tmps))]
        if k == 'CXXForRangeStmt':
            return self.range_for(n, d)
        if k == 'BreakStmt':
            return I + 'break;\n'
        if k == 'ContinueStmt':
            return I + 'continue;\n'
        if k == 'SwitchStmt':
            inner = [c for c in n.get('inner', []) if c.get('kind')]
            cond, body = inner[-2], inner[-1]
            return self.line(n) + I + 'switch (%s)\n%s' % (self.expr(cond), self.block(body, d))
        if k == 'CaseStmt':
            inner = n.get('inner', [])
            v = self.expr(inner[0])
            return I + 'case %s:\n%s' % (v, self.stmt(inner[-1], d + 1))
        if k == 'DefaultStmt':
            return I + 'default:\n%s' % self.stmt(n['inner'][0], d + 1)
        if k == 'LabelStmt' or k == 'GotoStmt':
            raise Unsupported('goto/label at %s' % where(n))
        if k == 'CXXTryStmt' or k == 'CXXThrowExpr':
            raise Unsupported('exceptions at %s' % where(n))
        if k == 'AttributedStmt':
            return self.stmt(n['inner'][-1], d)
        # expression statement
        try:
            txt = self.expr_stmt(n)
        except Unsupported as ex:
            why = self.droppable(n)
            if why is None:
                raise
            self.note('DROPPED statement at %s (touches %s; its reads and its frame are not verified)' % (where(n), why))
            k = self.cur.dropped
            self.cur.dropped += 1
            return I + '/* dropped: statement on %s at %s */\n%sDROPPED_STMT_%s_%d;\n' % (why, where(n), I, self.cur.cname, k)
        if txt is None:
            return ''
        return self.line(n) + I + txt + ';\n'

    def loop_stmt(self, n, k, d, I, f, lid, spec, inner):
        if True:
            if k == 'WhileStmt':
                inner = [c for c in inner if c]
                cond, body = inner[-2], inner[-1]
                return self.line(n) + I + 'while (%s)\n%s%s\n' % (self.expr(cond), I + spec, '\n' + self.block(body, d))
            if k == 'DoStmt':
                body, cond = inner[0], inner[1]
                return self.line(n) + I + 'do\n%s%s\n%s%swhile (%s);\n' % (I, spec, self.block(body, d), I, self.expr(cond))
            init, condvar, cond, inc, body = (inner + [None] * 5)[:5]
            s = I + '{\n'
            if init and init.get('kind'):
                s += self.stmt(init, d + 1) if init['kind'] == 'DeclStmt' else self.ind(d + 1) + self.expr(init) + ';\n'
            if condvar and condvar.get('kind'):
                raise Unsupported('for with condition variable')
            c = self.expr(cond) if cond and cond.get('kind') else '1'
            i = self.expr(inc) if inc and inc.get('kind') else ''
            s += self.line(n) + self.ind(d + 1) + 'for (; %s; %s)\n%s%s\n%s' % (c, i, self.ind(d + 1), spec, self.block(body, d + 1))
            s += I + '}\n'
            return s

    DROPPABLE = ('std::map<', 'std::unordered_map<', 'std::shared_ptr<', 'std::function<', 'std::basic_ostream',
                 'tbb::', 'std::mutex', 'std::basic_string')

    DROPPABLE_CALLS = ('parallel_invoke', 'parallel_for', 'parallel_reduce', 'parallel_scan', 'isolate')

    def droppable(self, n):
        if n.get('kind') == 'CallExpr' and self.callee_name(n) in self.DROPPABLE_CALLS:
            return 'tbb::' + self.callee_name(n)
        t = n.get('type', {})
        s = (t.get('desugaredQualType') or '') + ' ' + (t.get('qualType') or '')
        for d in self.DROPPABLE:
            if d == 'std::map<' and self.spec.get('model_std_map'):
                continue
            if d in s:
                return d.rstrip('<')
        for c in n.get('inner', []):
            if isinstance(c, dict):
                r = self.droppable(c)
                if r:
                    return r
        return None

    def skel_stmt(self, c, d):
        """skeleton mode (DESIGN section 2): a statement outside the subset is dropped and logged;
        variables it declares become unavailable, so later statements using them are dropped too"""
        f = self.cur
        save = (len(f.tmps), f.loops, f.dropped)
        try:
            return self.stmt(c, d)
        except Unsupported as ex:
            if c.get('kind') == 'ReturnStmt' and not (f.rett.kind == 'b' and f.rett.name == 'void'):
                del f.tmps[save[0]:]
                self.note('SKELETON: return value at %s could not be lowered (%s): an arbitrary value is returned' % (where(c), str(ex)[:120]))
                rt = Ty('ptr', to=f.rett.to) if f.rett.kind == 'ref' else f.rett
                return self.ind(d) + '{ SKELETON_RETURN(%s); %s; return __skel_ret; }\n' % (f.cname, self.cdecl(rt, '__skel_ret'))
            if c.get('kind') in ('ReturnStmt', 'BreakStmt', 'ContinueStmt'):
                raise
            del f.tmps[save[0]:]
            if f.loops != save[1]:
                raise InfraError('skeleton: a loop could not be lowered in %s: %s' % (f.cname, ex))
            names = []
            def decls(n):
                if n.get('kind') == 'VarDecl' and n.get('name'):
                    names.append(n['name'])
                for x in n.get('inner', []):
                    if isinstance(x, dict) and x.get('kind') != 'LambdaExpr':
                        decls(x)
            if c.get('kind') == 'DeclStmt':
                decls(c)
            f.dropped_vars.update(names)
            self.note('SKELETON: dropped %s at %s (%s)%s' % (c.get('kind'), where(c), str(ex)[:140], (' -- variables now unavailable: ' + ','.join(names)) if names else ''))
            k = f.dropped
            f.dropped += 1
            extra = ''
            if getattr(f, 'skeleton_returns', None) == 'havoc' and not (f.rett.kind == 'b' and f.rett.name == 'void'):
                rets = []
                def has_ret(n):
                    if n.get('kind') == 'ReturnStmt':
                        rets.append(n)
                    for x in n.get('inner', []):
                        if isinstance(x, dict) and x.get('kind') != 'LambdaExpr':
                            has_ret(x)
                has_ret(c)
                if rets:
                    # over-approximation: the dropped statement may return, with an arbitrary value
                    self.note('SKELETON: dropped statement at %s contains a return: modelled as an arbitrary-choice return of an arbitrary value' % where(c))
                    rt = Ty('ptr', to=f.rett.to) if f.rett.kind == 'ref' else f.rett
                    extra = self.ind(d) + 'if (nondet_bool()) { SKELETON_RETURN(%s); %s; return __skel_ret; }\n' % (f.cname, self.cdecl(rt, '__skel_ret'))
            return self.ind(d) + '/* skeleton: dropped %s at %s */ DROPPED_STMT_%s_%d;\n' % (c.get('kind'), where(c), f.cname, k) + extra

    def block(self, n, d):
        if n.get('kind') == 'CompoundStmt':
            return self.stmt(n, d)
        return self.ind(d) + '{\n' + self.stmt(n, d + 1) + self.ind(d) + '}\n'

    def expr_stmt(self, n):
        # statements whose top-level effect is dropped (tracing / profiling)
        e = self.strip(n)
        if e.get('kind') in ('CallExpr', 'CXXMemberCallExpr'):
            nm = self.callee_name(e)
            if nm in self.drop_calls:
                self.note('dropped call to %s at %s' % (nm, where(n)))
                return None
        return '(void)(%s)' % self.expr(n) if self.ty(n['type']).kind != 'b' or self.ty(n['type']).name != 'void' else self.expr(n)

    def callee_name(self, e):
        c = e['inner'][0]
        while c.get('kind') in ('ImplicitCastExpr', 'ParenExpr'):
            c = c['inner'][0]
        if c.get('kind') == 'DeclRefExpr':
            return c['referencedDecl'].get('name')
        if c.get('kind') == 'MemberExpr':
            return c.get('name')
        return None

    def mentions_call(self, n, name):
        if n.get('kind') in ('CallExpr', 'CXXMemberCallExpr') and self.callee_name(n) == name:
            return True
        return any(self.mentions_call(c, name) for c in n.get('inner', []) if isinstance(c, dict))

    def has_break_continue(self, n):
        k = n.get('kind')
        if k in ('BreakStmt', 'ContinueStmt'):
            return True
        if k in ('WhileStmt', 'DoStmt', 'ForStmt', 'CXXForRangeStmt', 'LambdaExpr'):
            # continue/break inside nested loops bind there; switch binds break only
            return False
        if k == 'SwitchStmt':
            return any(self.has_continue(c) for c in n.get('inner', []))
        return any(self.has_break_continue(c) for c in n.get('inner', []) if isinstance(c, dict))

    def has_continue(self, n):
        k = n.get('kind')
        if k == 'ContinueStmt':
            return True
        if k in ('WhileStmt', 'DoStmt', 'ForStmt', 'CXXForRangeStmt', 'LambdaExpr'):
            return False
        return any(self.has_continue(c) for c in n.get('inner', []) if isinstance(c, dict))

    def range_for(self, n, d):
        inner = n.get('inner', [])
        # [init, range decl, begin decl, end decl, cond, inc, loopvar decl, body]
        rng = inner[1]
        loopvar = inner[-2]['inner'][0]
        body = inner[-1]
        rv = rng['inner'][0]
        init = rv.get('inner', [None])[0]
        vals = self.init_list_consts(init)
        I = self.ind(d)
        if vals is not None:
            vt = self.ty(loopvar['type'])
            vname = loopvar['name']
            if vt.kind == 'ref':
                vt = vt.to
            if self.has_break_continue(body):
                # keep as a constant-bound loop over a literal table (break/continue keep their meaning)
                f = self.cur
                lid = f.loops
                f.loops += 1
                self.note('range-for over literal list lowered to constant-bound for at %s' % where(n))
                tab = '__rl%d' % lid
                s = I + '{\n'
                s += self.ind(d + 1) + '%s %s[%d] = {%s};\n' % (self.cty(vt), tab, len(vals), ', '.join(vals))
                s += self.line(n) + self.ind(d + 1) + 'for (int __ri%d = 0; __ri%d < %d; ++__ri%d)\n' % (lid, lid, len(vals), lid)
                s += self.ind(d + 1) + 'LOOPSPEC_%s_%d\n' % (f.cname, lid)
                s += self.ind(d + 1) + '{\n' + self.ind(d + 2) + '%s %s = %s[__ri%d];\n' % (self.cty(vt), vname, tab, lid)
                s += self.block(body, d + 2) + self.ind(d + 1) + '}\n' + I + '}\n'
                return s
            self.note('range-for over literal list {%s} unrolled at %s' % (','.join(vals), where(n)))
            s = ''
            for v in vals:
                s += self.line(n) + I + '{\n' + self.ind(d + 1) + '%s %s = %s;\n' % (self.cty(vt), vname, v)
                s += self.block(body, d + 1) + I + '}\n'
            return s
        # range-for over a container whose begin()/end() lower to raw pointers (VecView, Vec, std::vector):
        #   for (T* it = begin(c), *e = end(c); it != e; ++it) { decl p = *it; body }
        rt = self.ty(rv['type']).noref()
        rkey = rt.key or ''
        if rt.kind == 'rec' and (rkey.startswith('std::vector<') or 'VecView<' in rkey or 'Vec<' in rkey or (rkey.startswith('std::map<') and self.spec.get('model_std_map'))):
            f = self.cur
            lid = f.loops
            f.loops += 1
            cexpr = init
            et = None
            if rkey.startswith('std::map<'):
                self.need_record(rt)
                kv = split_top(rkey[len('std::map<'):-1])
                et = self.parse_type('std::pair<%s,%s>' % (kv[0], kv[1]))
                base = self.addr(cexpr)
                b = '(%s)->_data' % base
                en = '((%s)->_data + (%s)->_size)' % (base, base)
            elif rkey.startswith('std::vector<'):
                self.need_record(rt)
                et = self.parse_type(split_top(rkey[len('std::vector<'):-1])[0])
                base = self.addr(cexpr)
                b = '(%s)->_data' % base
                en = '((%s)->_data + (%s)->_size)' % (base, base)
            else:
                self.need_record(rt)
                m = re.search(r'Vec(?:View)?<(.*)>$', rkey)
                et = self.parse_type(split_top(m.group(1))[0])
                base = self.addr(cexpr)
                view = '(%s)' % base if 'VecView<' in rkey else '(&(%s)->_base0)' % base
                b = '%s->ptr_' % view
                en = '(%s->ptr_ + %s->size_)' % (view, view)
            ect = self.cty(et)
            vt = self.ty(loopvar['type'])
            vname = loopvar['name']
            f.names[loopvar['id']] = vname
            self.note('range-for over %s lowered to a pointer loop at %s' % (rkey, where(n)))
            s = I + '{\n'
            s += self.ind(d + 1) + '%s* __it%d = %s; %s* __end%d = %s;\n' % (ect, lid, b, ect, lid, en)
            s += self.line(n) + self.ind(d + 1) + 'for (; __it%d != __end%d; ++__it%d)\n' % (lid, lid, lid)
            s += self.ind(d + 1) + 'LOOPSPEC_%s_%d\n' % (f.cname, lid)
            s += self.ind(d + 1) + '{\n'
            if vt.kind == 'ref':
                f.refvars.add(loopvar['id'])
                s += self.ind(d + 2) + '%s* %s = __it%d;\n' % (ect, vname, lid)
            else:
                s += self.ind(d + 2) + '%s %s = *__it%d;\n' % (self.cty(vt), vname, lid)
            s += self.block(body, d + 2) + self.ind(d + 1) + '}\n' + I + '}\n'
            return s
        raise Unsupported('range-for over non-literal range at %s' % where(n))

    def init_list_exprs(self, e):
        e = self.strip(e)
        k = e.get('kind')
        if k in ('CXXStdInitializerListExpr', 'CXXConstructExpr') and len(e.get('inner', [])) == 1:
            return self.init_list_exprs(e['inner'][0])
        if k == 'InitListExpr':
            return [self.expr(c) for c in e.get('inner', [])]
        return None

    def init_list_consts(self, e):
        if e is None:
            return None
        e = self.strip(e)
        k = e.get('kind')
        if k in ('CXXStdInitializerListExpr',):
            return self.init_list_consts(e['inner'][0])
        if k == 'InitListExpr':
            vals = []
            for c in e.get('inner', []):
                c = self.strip(c)
                if c.get('kind') == 'IntegerLiteral':
                    vals.append(c['value'])
                elif c.get('kind') == 'UnaryOperator' and c.get('opcode') == '-' and c['inner'][0].get('kind') == 'IntegerLiteral':
                    vals.append('-' + c['inner'][0]['value'])
                else:
                    return None
            return vals
        if k == 'CXXConstructExpr' and len(e.get('inner', [])) == 1:
            return self.init_list_consts(e['inner'][0])
        return None

    def local_decl(self, c, d):
        I = self.ind(d)
        k = c.get('kind')
        if k in ('TypedefDecl', 'TypeAliasDecl', 'UsingDecl', 'StaticAssertDecl', 'UsingDirectiveDecl',
                 'CXXRecordDecl', 'EnumDecl', 'UsingShadowDecl'):
            return ''
        if k == 'DecompositionDecl':
            return self.decomp(c, d)
        if k != 'VarDecl':
            raise Unsupported('local declaration %s at %s' % (k, where(c)))
        t = self.ty(c['type'])
        name = c['name']
        inits = [x for x in c.get('inner', []) if isinstance(x, dict) and x.get('kind')]
        init = inits[0] if inits else None
        if init is not None and 'type' in init and not self.resolvable(t):
            # sugar clang left in the declared type (value_type, auto&, ...): the initialiser's type is canonical
            it = self.ty(init['type']).noref()
            t = Ty('ref', to=it) if t.kind == 'ref' else it
        static = 'static ' if c.get('storageClass') == 'static' else ''
        if c.get('storageClass') == 'static' and not c.get('constexpr') and 'const' not in c['type']['qualType']:
            raise Unsupported('mutable function-local static %s' % name)
        ln = self.line(c)
        if t.kind == 'ref':
            self.cur.refvars.add(c['id'])
            pt = Ty('ptr', to=t.to)
            if init is None:
                raise Unsupported('reference without init')
            s = self.strip_cleanups(init)
            if s.get('kind') == 'MaterializeTemporaryExpr' or s.get('valueCategory') == 'prvalue':
                # reference bound to a temporary: value + pointer to it
                self.note('reference %s bound to temporary -> local value at %s' % (name, where(c)))
                return ln + I + '%s = %s;\n' % (self.cdecl(t.to, name + '__v'), self.expr(init)) + \
                    I + '%s = &%s__v;\n' % (self.cdecl(pt, name), name)
            return ln + I + '%s = %s;\n' % (self.cdecl(pt, name), self.addr(init))
        if init is None:
            return ln + I + static + self.cdecl(t, name) + ';\n'
        if t.kind == 'arr':
            e = self.strip(init)
            if e.get('kind') == 'InitListExpr':
                return ln + I + static + '%s = %s;\n' % (self.cdecl(t, name), self.brace_init(e))
            raise Unsupported('array init at %s' % where(c))
        e = self.strip(init)
        if e.get('kind') == 'CXXConstructExpr' and not e.get('inner') and t.kind == 'rec':
            # default construction
            ctor = self.ctor_decl_of(e, t)
            if ctor is None and t.key.startswith('std::'):
                return ln + I + '%s = {0};\n' % self.cdecl(t, name)
            if ctor is None and not self.has_dmi(t):
                self.note('trivial default construction of %s left uninitialised (as in C++) at %s' % (t.name, where(c)))
                return ln + I + self.cdecl(t, name) + ';\n'
        return ln + I + static + '%s = %s;\n' % (self.cdecl(t, name), self.expr(init))

    def resolvable(self, t):
        b = t
        while b.kind in ('ref', 'ptr', 'arr'):
            b = b.to
        if b.kind != 'rec':
            return True
        return b.key in self.idx.records or bool(re.match(r'^(std::(pair|array|vector|atomic)<.*>|tbb::.*)$', b.key)) and not re.search(r'>::\w+$', b.key)

    def decomp(self, c, d):
        raise Unsupported('structured binding at %s' % where(c))

    def brace_init(self, e):
        parts = []
        for c in e.get('inner', []):
            s = self.strip(c)
            if s.get('kind') == 'InitListExpr' and self.ty(s['type']).kind == 'arr':
                parts.append(self.brace_init(s))
            elif s.get('kind') == 'ImplicitValueInitExpr':
                parts.append('0')
            else:
                parts.append(self.expr(c))
        if 'array_filler' in e:
            pass
        return '{' + ', '.join(parts) + '}'

    # ---- expressions
    def strip(self, e):
        while e.get('kind') in ('ExprWithCleanups', 'MaterializeTemporaryExpr', 'CXXBindTemporaryExpr',
                                'ConstantExpr', 'SubstNonTypeTemplateParmExpr', 'ParenExpr',
                                'CXXFunctionalCastExpr_') or \
                (e.get('kind') == 'ImplicitCastExpr' and e.get('castKind') in ('NoOp',)):
            e = e['inner'][-1] if e.get('kind') == 'SubstNonTypeTemplateParmExpr' else e['inner'][0]
        return e

    def strip_cleanups(self, e):
        while e.get('kind') in ('ExprWithCleanups', 'CXXBindTemporaryExpr', 'ConstantExpr'):
            e = e['inner'][0]
        return e

    def const_value(self, e):
        if 'value' in e and e.get('kind') in ('ConstantExpr', 'IntegerLiteral', 'CXXBoolLiteralExpr'):
            v = e['value']
            if isinstance(v, bool):
                return 1 if v else 0
            try:
                return int(v)
            except Exception:
                return {'true': 1, 'false': 0}.get(str(v))
        for c in e.get('inner', []):
            if e.get('kind') in ('ImplicitCastExpr', 'ParenExpr', 'ConstantExpr', 'SubstNonTypeTemplateParmExpr',
                                 'ExprWithCleanups'):
                return self.const_value(c)
        if e.get('kind') == 'UnaryOperator' and e.get('opcode') == '!':
            v = self.const_value(e['inner'][0])
            return None if v is None else int(not v)
        if e.get('kind') == 'DeclRefExpr':
            d = self.idx.by_id.get(e['referencedDecl']['id'])
            if d:
                for c in d.get('inner', []):
                    if isinstance(c, dict) and c.get('kind'):
                        return self.const_value(c)
        return None

    def is_lvalue(self, e):
        return e.get('valueCategory') in ('lvalue', 'xvalue')

    def addr(self, e):
        """C expression for a pointer to the object denoted by e"""
        s = e
        while s.get('kind') in ('ExprWithCleanups', 'CXXBindTemporaryExpr', 'ConstantExpr', 'ParenExpr') or \
                (s.get('kind') == 'ImplicitCastExpr' and s.get('castKind') == 'NoOp'):
            s = s['inner'][0]
        if s.get('kind') == 'MaterializeTemporaryExpr':
            inner = s['inner'][0]
            t = self.ty(s['type']).noref()
            return self.temp_addr(inner, t)
        if self.is_lvalue(s):
            txt = self.expr(s)
            m = re.match(r'^\(\*(.*)\)$', txt)
            if m and balanced(m.group(1)):
                return m.group(1)
            if re.match(r'^std_(min|max)_\w+\(', txt) and balanced(txt):
                # std::min/max return a reference in C++; the one-line C helpers return the value: bind it to a temporary
                t = self.ty(s['type']).noref()
                f = self.cur
                name = '__tmp%d' % len(f.tmps)
                f.tmps.append(self.cdecl(t, name))
                return '(%s = %s, &%s)' % (name, txt, name)
            return '&' + txt
        t = self.ty(s['type']).noref()
        return self.temp_addr(s, t)

    def temp_addr(self, e, t):
        f = self.cur
        name = '__tmp%d' % len(f.tmps)
        f.tmps.append(self.cdecl(t, name))
        return '(%s = %s, &%s)' % (name, self.expr(e), name)

    def cast(self, t, txt):
        return '((%s)%s)' % (self.cty(t), txt)

    def expr(self, e):
        k = e.get('kind')
        m = getattr(self, 'e_' + k, None)
        if m is None:
            raise Unsupported('expression kind %s at %s' % (k, where(e)))
        return m(e)

    def e_ParenExpr(self, e):
        return self.expr(e['inner'][0])

    def e_ExprWithCleanups(self, e):
        return self.expr(e['inner'][0])
    e_MaterializeTemporaryExpr = e_ExprWithCleanups
    e_CXXBindTemporaryExpr = e_ExprWithCleanups
    e_ConstantExpr = e_ExprWithCleanups

    def e_SubstNonTypeTemplateParmExpr(self, e):
        return self.expr(e['inner'][-1])   # [parameter decl, substituted value]

    def e_IntegerLiteral(self, e):
        t = self.ty(e['type'])
        return e['value'] + INT_SUFFIX.get(t.name, '')

    def e_FloatingLiteral(self, e):
        v = str(e['value'])
        if v in ('inf', '+Inf', 'Inf'):
            v = '__builtin_inf()'
        elif not any(ch in v for ch in '.eEnN'):
            v += '.0'
        t = self.ty(e['type'])
        if t.name == 'float':
            return '((float)%s)' % v
        return v

    def e_StringLiteral(self, e):
        return e.get('value', '""')

    def e_CXXBoolLiteralExpr(self, e):
        return '1' if e['value'] in (True, 'true') else '0'

    def e_CharacterLiteral(self, e):
        return '((char)%d)' % e['value']

    def e_CXXNullPtrLiteralExpr(self, e):
        return '((void*)0)'
    e_GNUNullExpr = e_CXXNullPtrLiteralExpr

    def e_ImplicitValueInitExpr(self, e):
        return self.zero_of(self.ty(e['type']))
    e_CXXScalarValueInitExpr = e_ImplicitValueInitExpr

    def e_CXXThisExpr(self, e):
        f = self.cur
        if f.kind in ('lambda', 'region') and f.this_field:
            return f.this_field
        return 'self'

    def e_DeclRefExpr(self, e):
        r = e['referencedDecl']
        rk = r['kind']
        rid = r['id']
        f = self.cur
        if rk in ('VarDecl', 'ParmVarDecl', 'BindingDecl'):
            if rid in f.captures:
                fname, isptr = f.captures[rid]
                return '(*%s)' % fname if isptr else fname
            d = self.idx.by_id.get(rid)
            if rk == 'VarDecl' and d is not None and self.is_global(d):
                return self.global_var(d)
            if rk == 'VarDecl' and d is None:
                return self.external_var(r)
            nm = f.names.get(rid) or r['name']
            if nm in f.dropped_vars and rid not in f.region_param_ids:
                raise Unsupported('uses variable %s whose declaration was dropped' % nm)
            if rid in f.refvars:
                return '(*%s)' % nm
            return nm
        if rk == 'EnumConstantDecl':
            return self.enum_const(r)
        if rk in ('FunctionDecl', 'CXXMethodDecl'):
            d = self.idx.definition(rid)
            return self.fn_ref(d, r)
        raise Unsupported('DeclRefExpr to %s %s at %s' % (rk, r.get('name'), where(e)))

    def is_global(self, d):
        pid = self.idx.parent.get(d['id'])
        p = self.idx.by_id.get(pid) if pid else None
        if p is None:
            return d.get('storageClass') != 'auto' and self.idx.qname.get(d['id']) is not None and \
                not self.inside_function(d)
        return p.get('kind') in ('NamespaceDecl', 'CXXRecordDecl', 'ClassTemplateSpecializationDecl', 'VarTemplateDecl')

    def inside_function(self, d):
        pid = self.idx.parent.get(d['id'])
        while pid:
            p = self.idx.by_id.get(pid)
            if p is None:
                return False
            if p.get('kind') in ('FunctionDecl', 'CXXMethodDecl', 'CXXConstructorDecl'):
                return True
            pid = self.idx.parent.get(pid)
        return False

    def global_var(self, d):
        did = d['id']
        name = mangle(self.idx.qname.get(did, d['name']))
        if did not in self.globals:
            t = self.ty(d['type'])
            inits = [x for x in d.get('inner', []) if isinstance(x, dict) and x.get('kind') and not x['kind'].endswith('Attr')]
            is_const = 'const' in d['type']['qualType'] or d.get('constexpr')
            if not is_const:
                if not self.spec.get('mutable_globals'):
                    raise Unsupported('mutable global %s' % name)
                self.note('mutable global %s lowered as a plain global: its value on entry is whatever the harness leaves (arbitrary)' % name)
                self.globals[did] = '%s;' % self.cdecl(t, name)
                self.global_order.append(did)
                return name
            self.globals[did] = None
            if not inits:
                raise Unsupported('global %s without initialiser in this TU' % name)
            e = self.strip(inits[0])
            save = self.cur
            self.cur = Fn(d, '__global_' + name)
            if t.kind == 'arr' and e.get('kind') == 'InitListExpr':
                txt = 'static const %s = %s;' % (self.cdecl(t, name), self.brace_init(e))
            elif t.kind == 'rec' and e.get('kind') == 'InitListExpr':
                txt = 'static const %s = %s;' % (self.cdecl(t, name), self.brace_init_rec(e))
            else:
                v = self.const_value(inits[0])
                if v is not None and t.kind in ('b', 'enum') and t.name not in ('double', 'float'):
                    txt = 'static const %s = %s;' % (self.cdecl(t, name), v)
                elif t.kind == 'rec' and self.strip(inits[0]).get('kind') in ('CXXConstructExpr', 'CXXTemporaryObjectExpr', 'CXXFunctionalCastExpr'):
                    self.note('global %s: constructor-call initialiser is not a C constant expression; object left zero-initialised (value not modelled)' % name)
                    txt = 'static const %s;' % self.cdecl(t, name)
                else:
                    txt = 'static const %s = %s;' % (self.cdecl(t, name), self.expr(inits[0]))
            if self.cur.tmps:
                raise Unsupported('global initialiser needs temporaries: %s' % name)
            self.cur = save
            self.globals[did] = txt
            self.global_order.append(did)
        return name

    def brace_init_rec(self, e):
        parts = []
        refs = []
        try:
            et = self.ty(e['type'])
            if et.kind == 'rec':
                self.need_record(et)
                refs = getattr(self, 'rec_ref_fields', {}).get(et.name, [])
        except Unsupported:
            pass
        for k, c in enumerate(e.get('inner', [])):
            s = self.strip(c)
            if k < len(refs) and refs[k]:
                parts.append(self.addr(c))      # aggregate member of reference type: bound to the object, lowered to its address
                continue
            if s.get('kind') == 'InitListExpr':
                parts.append(self.brace_init_rec(s))
            elif s.get('kind') == 'CXXConstructExpr' and len(s.get('inner', [])) == 1:
                parts.append(self.brace_init_rec(s['inner'][0]) if self.strip(s['inner'][0]).get('kind') == 'InitListExpr' else self.expr(c))
            else:
                parts.append(self.expr(c))
        return '{' + ', '.join(parts) + '}'

    def external_var(self, r):
        raise Unsupported('reference to external variable %s' % r.get('name'))

    def enum_const(self, r):
        d = self.idx.by_id.get(r['id'])
        if d is None:
            mo = {'memory_order_relaxed': 0, 'memory_order_consume': 1, 'memory_order_acquire': 2,
                  'memory_order_release': 3, 'memory_order_acq_rel': 4, 'memory_order_seq_cst': 5}
            if r.get('name') in mo:
                self.note('std::memory_order constants lowered to integers; every atomic operation is treated as seq_cst')
                return '%d /*%s*/' % (mo[r['name']], r['name'])
            raise Unsupported('enum constant %s not in repo AST' % r.get('name'))
        pid = self.idx.parent.get(d['id'])
        en = self.idx.by_id.get(pid)
        # compute value: explicit ConstantExpr value or previous+1
        val = 0
        for c in en.get('inner', []):
            if c.get('kind') != 'EnumConstantDecl':
                continue
            v = None
            for x in c.get('inner', []):
                v = self.const_value(x)
            if v is not None:
                val = v
            if c['id'] == d['id']:
                return '%d /*%s*/' % (val, d['name'])
            val += 1
        raise Unsupported('enum constant value')

    def fn_ref(self, d, r):
        if d is None:
            raise Unsupported('reference to external function %s as value' % r.get('name'))
        return self.request_fn(d).cname

    # -- casts
    def e_ImplicitCastExpr(self, e):
        ck = e.get('castKind')
        sub = e['inner'][0]
        if ck == 'LValueToRValue':
            inv = self.elem_inv_of(sub)
            if inv:
                f = self.cur
                t = self.ty(e['type']).noref()
                name = '__tmp%d' % len(f.tmps)
                f.tmps.append(self.cdecl(t, name))
                return '(%s = %s, __CPROVER_assume(%s(%s)), %s)' % (name, self.expr(sub), inv, name, name)
        if ck in ('LValueToRValue', 'NoOp', 'FunctionToPointerDecay', 'ArrayToPointerDecay',
                  'ConstructorConversion', 'UserDefinedConversion'):
            return self.expr(sub)
        if ck in ('IntegralCast', 'FloatingCast', 'IntegralToFloating', 'FloatingToIntegral',
                  'IntegralToBoolean', 'FloatingToBoolean', 'BooleanToSignedIntegral'):
            t = self.ty(e['type'])
            if ck == 'IntegralToBoolean' or ck == 'FloatingToBoolean':
                return '((%s) != 0)' % self.expr(sub)
            return self.cast(t, self.expr(sub))
        if ck == 'PointerToBoolean':
            return '((%s) != 0)' % self.expr(sub)
        if ck == 'NullToPointer':
            return '((void*)0)'
        if ck == 'BitCast':
            return self.cast(self.ty(e['type']), self.expr(sub))
        if ck in ('DerivedToBase', 'UncheckedDerivedToBase'):
            return self.to_base(e, sub)
        if ck == 'ToVoid':
            return '((void)%s)' % self.expr(sub)
        raise Unsupported('cast kind %s at %s' % (ck, where(e)))

    def to_base(self, e, sub):
        st = self.ty(sub['type'])
        tt = self.ty(e['type'])
        if (st.deref().key or '').startswith('std::atomic<'):
            return self.expr(sub)   # base subobject of the std::atomic model is the model itself
        if 'shared_ptr' in ((sub['type'].get('desugaredQualType') or '') + sub['type'].get('qualType', '')):
            return self.expr(sub)   # shared_ptr base classes: the raw-pointer model is its own base
        if st.kind == 'ptr':
            base_t = tt.deref()
            self.need_record(st.to)
            if not self.rec_fields.get(base_t.name):
                return self.cast(tt, self.expr(sub))
            return '(&(%s)->_base0)' % self.expr(sub)
        self.need_record(st)
        return '(%s)._base0' % self.expr(sub)

    def explicit_cast(self, e):
        ck = e.get('castKind')
        sub = e['inner'][0]
        if ck in ('NoOp', 'ConstructorConversion', 'UserDefinedConversion', 'LValueToRValue'):
            return self.expr(sub)
        t = self.ty(e['type'])
        if ck == 'ToVoid':
            return '((void)%s)' % self.expr(sub)
        if ck == 'LValueBitCast' or (ck == 'BitCast' and self.is_lvalue(e) and t.kind != 'ptr'):
            # reinterpret_cast<T&>(x): same object viewed as T
            return '(*(%s*)%s)' % (self.cty(t.noref()), self.addr(sub))
        if ck in ('IntegralToBoolean', 'FloatingToBoolean', 'PointerToBoolean'):
            return '((%s) != 0)' % self.expr(sub)
        if ck in ('DerivedToBase', 'UncheckedDerivedToBase'):
            return self.to_base(e, sub)
        return self.cast(t, self.expr(sub))
    e_CXXStaticCastExpr = explicit_cast
    e_CStyleCastExpr = explicit_cast
    e_CXXFunctionalCastExpr = explicit_cast
    e_CXXReinterpretCastExpr = explicit_cast
    e_CXXConstCastExpr = explicit_cast

    # -- operators
    def elem_inv_of(self, e):
        """name of the element-invariant macro if e is v[i] on a local container the spec gives an invariant for"""
        tab = self.spec.get('element_invariants', {}).get(self.cur.cname if self.cur else '', {})
        if not tab:
            return None
        s = self.strip(e)
        if s.get('kind') != 'CXXOperatorCallExpr' or len(s.get('inner', [])) < 3:
            return None
        base = self.strip(s['inner'][1])
        while base.get('kind') == 'ImplicitCastExpr':
            base = base['inner'][0]
        if base.get('kind') == 'DeclRefExpr' and base['referencedDecl'].get('name') in tab:
            return tab[base['referencedDecl']['name']]
        if base.get('kind') == 'MemberExpr' and base.get('name') in tab:
            return tab[base['name']]      # container that is a member of a local object (out.leafToOrig[i])
        return None

    def e_BinaryOperator(self, e):
        a, b = e['inner']
        op = e['opcode']
        inv = self.elem_inv_of(a) if op == '=' else None
        if inv:
            f = self.cur
            t = self.ty(a['type']).noref()
            name = '__tmp%d' % len(f.tmps)
            f.tmps.append(self.cdecl(t, name))
            self.note('element invariant %s: asserted on every write, assumed on every read of the container (type-refinement contract)' % inv)
            return '(%s = %s, __CPROVER_assert(%s(%s), "element invariant %s preserved by this write"), %s = %s)' % (
                name, self.expr(b), inv, name, inv, self.expr(a), name)
        if op == ',':
            return '(%s, %s)' % (self.expr(a), self.expr(b))
        if op == '=' and self.ty(e['type']).kind == 'arr':
            raise Unsupported('array assignment')
        return '(%s %s %s)' % (self.expr(a), op, self.expr(b))
    e_CompoundAssignOperator = e_BinaryOperator

    def e_UnaryOperator(self, e):
        op = e['opcode']
        sub = e['inner'][0]
        if op == '&':
            return '(%s)' % self.addr(sub)
        if op == '*':
            return '(*%s)' % self.expr(sub)
        if e.get('isPostfix'):
            return '(%s%s)' % (self.expr(sub), op)
        return '(%s%s)' % (op, self.expr(sub))

    def e_ConditionalOperator(self, e):
        c, a, b = e['inner']
        if self.is_lvalue(e) and self.ty(e['type']).kind != 'arr':
            return '(*(%s ? %s : %s))' % (self.expr(c), self.addr(a), self.addr(b))
        return '(%s ? %s : %s)' % (self.expr(c), self.expr(a), self.expr(b))

    def e_ArraySubscriptExpr(self, e):
        a, b = e['inner']
        return '%s[%s]' % (self.expr(a), self.expr(b))

    def e_MemberExpr(self, e):
        base = e['inner'][0]
        name = e['name']
        md = self.idx.by_id.get(e.get('referencedMemberDecl'))
        if md is not None and md.get('kind') == 'VarDecl':
            return self.global_var(md)   # static data member
        b = self.expr(base)
        txt = '%s->%s' % (b, name) if e.get('isArrow') else '%s.%s' % (b, name)
        if md is not None and md.get('kind') == 'FieldDecl' and self.ty(md['type']).kind == 'ref':
            return '(*%s)' % txt   # reference member is stored as a pointer
        return txt

    def e_UnaryExprOrTypeTraitExpr(self, e):
        if e.get('name') == 'sizeof':
            if 'argType' in e:
                return 'sizeof(%s)' % self.cty(self.ty(e['argType']))
            return 'sizeof(%s)' % self.expr(e['inner'][0])
        raise Unsupported('type trait %s' % e.get('name'))

    def e_InitListExpr(self, e):
        t = self.ty(e['type'])
        if t.kind == 'rec':
            return '((%s)%s)' % (self.cty(t), self.brace_init_rec(e))
        if t.kind in ('b', 'enum', 'ptr') and len(e.get('inner', [])) == 1:
            return self.expr(e['inner'][0])
        if t.kind in ('b', 'enum', 'ptr') and not e.get('inner'):
            return self.zero_of(t)
        raise Unsupported('init list of %r at %s' % (t, where(e)))

    def e_CXXDefaultArgExpr(self, e):
        raise Unsupported('default argument outside a call at %s' % where(e))

    def e_CXXDefaultInitExpr(self, e):
        raise Unsupported('default member init outside ctor at %s' % where(e))

    # -- calls
    def args_for(self, callee, args, pdecls=None):
        """lower call arguments against callee parameter types (refs -> pointers)"""
        out = []
        if pdecls is None and callee is not None:
            pdecls = self.params_of(callee)
        for i, a in enumerate(args):
            if a.get('kind') == 'CXXDefaultArgExpr':
                if pdecls is None or i >= len(pdecls):
                    raise Unsupported('default arg of unknown callee at %s' % where(a))
                ini = [x for x in pdecls[i].get('inner', []) if isinstance(x, dict) and x.get('kind')]
                if not ini:
                    # default arg defined on another declaration
                    raise Unsupported('default arg not found for %s' % pdecls[i].get('name'))
                a = ini[0]
            if pdecls is not None and i < len(pdecls):
                pt = self.ty(pdecls[i]['type'])
                if pt.kind == 'ref':
                    out.append(self.addr(a))
                    continue
            out.append(self.expr(a))
        return out

    def e_CallExpr(self, e):
        callee = e['inner'][0]
        args = e['inner'][1:]
        c = callee
        while c.get('kind') in ('ImplicitCastExpr', 'ParenExpr', 'SubstNonTypeTemplateParmExpr', 'ConstantExpr', 'UnaryOperator'):
            if c.get('kind') == 'UnaryOperator' and c.get('opcode') != '&':
                break
            # a function passed as non-type template argument (`template <hash_fun_t H>`): the substituted
            # replacement expression is the last child
            c = c['inner'][-1] if c.get('kind') == 'SubstNonTypeTemplateParmExpr' else c['inner'][0]
        if c.get('kind') != 'DeclRefExpr':
            raise Unsupported('indirect call at %s' % where(e))
        r = c['referencedDecl']
        if r.get('kind') == 'CXXMethodDecl' and r.get('name') == 'operator()' and args:
            # closure call inside a template instantiation: printed as CallExpr(operator(), object, args...)
            return self.call_function(e, r, self.addr(args[0]), args[1:])
        return self.call_function(e, r, None, args)

    def lambda_by_type(self, key):
        """LambdaExpr whose closure type prints as `key` = '(lambda at file:line:col)'"""
        if not hasattr(self, '_lam_by_type'):
            self._lam_by_type = {}
            def dependent(n):
                # the lambda inside an uninstantiated template pattern: its body still has unresolved calls
                for c in n['inner'][0].get('inner', []):
                    if c.get('name') == 'operator()':
                        if c.get('id') in self.idx.pattern:
                            return True
                        def unresolved(x):
                            if x.get('kind') in ('UnresolvedLookupExpr', 'CXXDependentScopeMemberExpr', 'UnresolvedMemberExpr', 'DependentScopeDeclRefExpr'):
                                return True
                            if x.get('kind') == 'CallExpr' and x.get('type', {}).get('qualType') == '<dependent type>':
                                return True
                            return any(unresolved(y) for y in x.get('inner', []) if isinstance(y, dict))
                        return unresolved(c)
                return False
            def walk(n):
                if n.get('kind') == 'LambdaExpr' and n.get('inner'):
                    k = n.get('type', {}).get('qualType')
                    if k not in self._lam_by_type or dependent(self._lam_by_type[k]):
                        self._lam_by_type[k] = n
                for x in n.get('inner', []):
                    if isinstance(x, dict):
                        walk(x)
            walk(self.idx.root)
        return self._lam_by_type.get(key)

    def request_closure(self, lam):
        """lower a lambda that was not named as a target (local closure objects, callbacks passed on)"""
        import lower_ext
        rec = lam['inner'][0]
        for c in rec.get('inner', []):
            if c.get('name') == 'operator()' and c.get('id') in self.fns:
                return self.fns[c['id']]
        for key in self.stubs:
            if key.startswith('closure:') and re.search(key[len('closure:'):], where(lam)):
                # a callback the unit replaces by a stub: its closure is an opaque object, its body is not lowered
                tn = mangle(lam.get('type', {}).get('qualType', ''))
                if not self.rec_defs.get(tn):
                    self.rec_defs[tn] = 'struct %s { char _opaque; };' % tn
                    self.rec_order.append(tn)
                    self.rec_fields[tn] = []
                    self.note('closure of the lambda at %s is opaque (calls go to stub %s)' % (where(lam), self.stubs[key] if isinstance(self.stubs[key], str) else self.stubs[key].get('cname')))
                return None
        self.auto_lambdas = getattr(self, 'auto_lambdas', 0) + 1
        fl, ln = node_line(lam)
        cn = 'lambda_%s_%d' % (mangle(os.path.basename(str(fl)).split('.')[0]), self.auto_lambdas)
        return lower_ext.request_lambda_node(self, lam, cn)

    def lambda_of_call_operator(self, d):
        """LambdaExpr node whose closure's operator() is d (None for ordinary functors)"""
        if not hasattr(self, '_lam_by_call'):
            self._lam_by_call = {}
            def walk(n):
                if n.get('kind') == 'LambdaExpr' and n.get('inner'):
                    rec = n['inner'][0]
                    for c in rec.get('inner', []):
                        if c.get('name') == 'operator()':
                            if c.get('kind') == 'CXXMethodDecl':
                                self._lam_by_call.setdefault(c['id'], n)
                            for x in c.get('inner', []):
                                if isinstance(x, dict) and x.get('kind') == 'CXXMethodDecl':
                                    self._lam_by_call.setdefault(x['id'], n)
                for x in n.get('inner', []):
                    if isinstance(x, dict):
                        walk(x)
            walk(self.idx.root)
        return self._lam_by_call.get(d['id'])

    def e_UserDefinedLiteral(self, e):
        return self.e_CallExpr(e)

    def call_function(self, e, r, obj, args):
        """r: referencedDecl stub; obj: C text of object pointer for methods or None"""
        rid = r['id']
        name = r.get('name')
        d = self.idx.definition(rid)
        q = self.idx.qname.get(d['id']) if d is not None else None
        if name == 'operator()' and obj is not None:
            lam = self.lambda_of_call_operator({'id': rid}) or (self.lambda_of_call_operator(d) if d is not None else None)
            if lam is not None and d is None:
                d = [c for c in lam['inner'][0].get('inner', []) if c.get('name') == 'operator()'][0]
            if lam is not None:
                # a call through a closure object: callbacks defined where a `closure:<regex>` stub key matches the
                # lambda's source position are replaced by that stub; any other lambda is lowered on demand
                loc = where(lam)
                for key in self.stubs:
                    if key.startswith('closure:') and re.search(key[len('closure:'):], loc):
                        return self.stub_call(e, key, d, r, obj, args)
                if d is not None and d['id'] not in self.fns and 'operator()' not in self.stubs:
                    self.request_closure(lam)
        # assumed-contract stubs named in the spec
        for key in (q, name):
            if key and key in self.stubs:
                return self.stub_call(e, key, d, r, obj, args)
        if d is not None and name in self.spec.get('record_calls', []):
            return self.recording_stub(e, d, q, obj, args)
        if d is None:
            return self.builtin_call(e, r, obj, args)
        if q and q.startswith('linalg::') and obj is None and d.get('kind') == 'FunctionDecl':
            import lower_ext
            txt = lower_ext.linalg_call(self, e, d, name, args)
            if txt is not None:
                return txt
            raise Unsupported('linalg function %s %s is not in the fixed table at %s' % (q, d['type']['qualType'], where(e)))
        if q and (q.startswith('linalg::') or q.startswith('std::')) and not Index.has_body(d):
            return self.builtin_call(e, r, obj, args)
        if not Index.has_body(d) and self.spec.get('record_external_calls'):
            return self.recording_stub(e, d, q, obj, args)
        if not Index.has_body(d):
            raise Unsupported('call to %s which has no body in this TU (add a stub with an assumed contract) at %s' % (q or name or r.get('type', {}).get('qualType'), where(e)))
        if d['id'] in self.idx.pattern:
            raise Unsupported('call to dependent template pattern %s' % q)
        f = self.request_fn(d)
        if not hasattr(f, 'ret_hint'):
            ht = self.ty(e['type'])
            f.ret_hint = Ty('ref', to=ht) if self.is_lvalue(e) and ht.kind != 'ref' else ht
        if getattr(self.cur, 'skeleton', False) and f.text is None and f in self.worklist:
            self.lower_now(f)
        a = self.args_for(d, args)
        if obj is not None:
            a = [obj] + a
        txt = '%s(%s)' % (f.cname, ', '.join(a))
        rt = self.ret_type_of(f) if d.get('kind') != 'CXXConstructorDecl' else None
        if rt is not None and rt.kind == 'ref':
            return '(*%s)' % txt
        return txt

    def recording_stub(self, e, d, q, obj, args):
        """C binding units: a call to a C++ API function defined outside this TU becomes a generated
        stub that records every argument under the callee's own parameter name (from the C++ header)"""
        name = d.get('name')
        pds = self.params_of(d)
        base = 'rec_' + mangle(name if not name.startswith('operator') else 'op')
        if self.spec.get('recorder_names') == 'qualified':
            # rec_<Class>_<Method>: stable under the order in which wrappers are lowered
            rec_n = self.idx.record_of_method(d) if d.get('kind') in ('CXXMethodDecl', 'CXXConstructorDecl', 'CXXConversionDecl') else None
            if rec_n is not None:
                OPN = {'+': 'add', '-': 'sub', '^': 'xor', '*': 'mul', '/': 'div', '+=': 'add_assign', '-=': 'sub_assign', '^=': 'xor_assign',
                       '==': 'eq', '!=': 'ne', '=': 'assign', '[]': 'index', '()': 'call', '<': 'lt'}
                mname = mangle(name) if not name.startswith('operator') else 'op_' + OPN.get(name[len('operator'):].strip(), 'x')
                base = 'rec_%s_%s' % (mangle(self.idx.qname[rec_n['id']].split('::')[-1]), mname)
                nover = len([c for c in rec_n.get('inner', []) if c.get('name') == name and c.get('kind') in ('CXXMethodDecl', 'CXXConstructorDecl', 'FunctionTemplateDecl')])
                if nover > 1:
                    # overloaded: the parameter types are part of the name, so it does not depend on lowering order
                    sig = '_'.join(mangle(re.sub(r'\b(const|manifold::|std::|struct|class)\b|[&*\s]', '', p['type']['qualType'])) for p in pds) or 'void'
                    base += '__' + sig
        pds = self.params_of(d)
        key = d['id']
        if key not in self.recorders:
            cname = base
            k = 2
            while cname in self.recorder_names:
                cname = '%s_%d' % (base, k)
                k += 1
            self.recorder_names.add(cname)
            rt = self.ty(e['type'])
            is_ref = self.is_lvalue(e)
            rct = self.cty(Ty('ptr', to=rt) if is_ref else rt) if not (rt.kind == 'b' and rt.name == 'void') else 'void'
            gl, ps, body = [], [], ['ghost_%s_calls++;' % cname]
            gl.append('int ghost_%s_calls;' % cname)
            if obj is not None:
                gl.append('void* ghost_%s_self;' % cname)
                ps.append('void* self')
                body.append('ghost_%s_self = self;' % cname)
            for i, pd in enumerate(pds):
                pt = self.ty(pd['type'])
                pn = pd.get('name') or ('arg%d' % i)
                if pt.kind == 'ref':
                    tt = pt.to
                    if tt.kind == 'rec' and not self.rec_fields.get(tt.name):
                        try:
                            self.need_record(tt)
                        except Unsupported:
                            pass
                    import lower_ext as _le
                    opaque = tt.kind == 'rec' and not _le.vec_info(tt)   # identity for objects, value for plain vectors
                    ps.append(self.cdecl(Ty('ptr', to=tt), pn))
                    if opaque:
                        gl.append('void* ghost_%s_%s;' % (cname, pn))
                        body.append('ghost_%s_%s = (void*)%s;' % (cname, pn, pn))
                    else:
                        gl.append('%s;' % self.cdecl(tt, 'ghost_%s_%s' % (cname, pn)))
                        body.append('ghost_%s_%s = *%s;' % (cname, pn, pn))
                else:
                    ps.append(self.cdecl(pt, pn))
                    gl.append('%s;' % self.cdecl(pt, 'ghost_%s_%s' % (cname, pn)))
                    body.append('ghost_%s_%s = %s;' % (cname, pn, pn))
            if rct != 'void':
                if is_ref:
                    body.append('static %s r; return &r;' % self.cty(rt))
                elif rt.kind == 'b':
                    # scalar result: arbitrary, and remembered so a spec can require the wrapper to return it
                    gl.append('%s;' % self.cdecl(rt, 'ghost_%s_ret' % cname))
                    if rct == '_Bool':
                        gl.append('_Bool nondet_bool(void);')
                        body.append('_Bool r = nondet_bool(); ghost_%s_ret = r; return r;' % cname)   # an uninitialised _Bool is an arbitrary byte in cbmc
                    else:
                        body.append('%s r; ghost_%s_ret = r; return r;' % (rct, cname))
                else:
                    body.append('%s r; return r;' % rct)
            text = '\n'.join(gl) + '\n%s %s(%s) { %s }' % (rct, cname, ', '.join(ps) or 'void', ' '.join(body))
            self.helper(cname, text)
            if not hasattr(self, 'recorder_info'):
                self.recorder_info = {}
            self.recorder_info[cname] = {'callee': q, 'has_self': obj is not None, 'ghosts': [g.rstrip(';') for g in gl],
                                         'ret_recorded': any('_ret' in g for g in gl)}
            self.recorders[key] = (cname, is_ref)
            self.note('external C++ API call %s -> recording stub %s(%s) (arguments stored under the C++ parameter names; result arbitrary)' % (q, cname, ', '.join(p.get('name', '?') for p in pds)))
        cname, is_ref = self.recorders[key]
        a = self.args_for(d, args)
        if obj is not None:
            a = ['(void*)' + obj] + a
        txt = '%s(%s)' % (cname, ', '.join(a))
        return '(*%s)' % txt if is_ref else txt

    def stub_call(self, e, key, d, r, obj, args):
        st = self.stubs[key]
        if isinstance(st, dict):
            cname = st['cname']
        else:
            cname, st = st, {}
        if '{rec}' in cname:
            rec = self.idx.record_of_method(d) if d is not None else None
            rq = self.idx.qname.get(rec['id']) if rec else ''
            cname = cname.replace('{rec}', mangle(self.canon_record(strip_const_deep(rq))))
        if st.get('args') == 'drop':
            a = []
        elif st.get('args') == 'self':
            a = []
        else:
            a = self.args_for(d, args) if d is not None else [self.expr(x) for x in args]
        if obj is not None and st.get('args') != 'drop':
            a = [obj] + a
        self.stubs_used.add(cname)
        self.note('call to %s replaced by assumed-contract stub %s at %s' % (key, cname, where(e)))
        rt = self.ty(e['type'])
        txt = '%s(%s)' % (cname, ', '.join(a))
        if self.is_lvalue(e):
            return '(*%s)' % txt
        return txt

    def e_CXXMemberCallExpr(self, e):
        me = e['inner'][0]
        args = e['inner'][1:]
        while me.get('kind') in ('ParenExpr',):
            me = me['inner'][0]
        if me.get('kind') != 'MemberExpr':
            raise Unsupported('member call through %s at %s' % (me.get('kind'), where(e)))
        base = me['inner'][0]
        if me.get('isArrow'):
            obj = self.expr(base)
        else:
            obj = self.addr(base)
        mid = me.get('referencedMemberDecl')
        d = self.idx.by_id.get(mid)
        r = {'id': mid, 'name': me.get('name'), 'kind': 'CXXMethodDecl'}
        if d is None:
            return self.builtin_method(e, me, base, obj, args)
        return self.call_function(e, r, obj, args)

    def e_CXXOperatorCallExpr(self, e):
        callee = e['inner'][0]
        c = callee
        while c.get('kind') in ('ImplicitCastExpr', 'ParenExpr'):
            c = c['inner'][0]
        r = c['referencedDecl']
        args = e['inner'][1:]
        if r['kind'] == 'CXXMethodDecl':
            base = args[0]
            d = self.idx.by_id.get(r['id'])
            if d is not None and r.get('name') == 'operator=' and (d.get('isImplicit') or d.get('explicitlyDefaulted')) \
                    and len(args) == 2:
                t = self.ty(base['type']).noref()
                self.check_struct_copy(t, e)
                return '(%s = %s)' % (self.expr(base), self.expr(args[1]))
            if d is None:
                return self.builtin_method(e, {'name': r['name']}, base, self.addr(base), args[1:])
            # lambda call operator
            return self.call_function(e, r, self.addr(base), args[1:])
        return self.call_function(e, r, None, args)

    def ctor_decl_of(self, e, t):
        """find the constructor decl a CXXConstructExpr calls, by signature"""
        sig = e.get('ctorType', {}).get('qualType')
        recs = self.idx.records_all.get(t.key) or []
        if not recs:
            return None
        nsig = strip_const_deep(sig or '')
        members = [c for rec in recs for c in rec.get('inner', [])]
        exact = [c for c in members if c.get('kind') == 'CXXConstructorDecl' and c['type']['qualType'] == sig]
        cands = exact or [c for c in members if c.get('kind') == 'CXXConstructorDecl' and strip_const_deep(c['type']['qualType']) == nsig]
        # several const-variant specializations share one C struct: prefer a constructor that was instantiated
        cands.sort(key=lambda c: 0 if Index.has_body(self.idx.definition(c['id']) or c) else 1)
        for c in cands + [c for c in members if c.get('kind') == 'FunctionTemplateDecl']:
            if c.get('kind') == 'CXXConstructorDecl':
                d = self.idx.definition(c['id'])
                if c.get('isImplicit') or c.get('explicitlyDefaulted'):
                    return None
                return d
            if c.get('kind') == 'FunctionTemplateDecl':
                for x in c.get('inner', []):
                    if x.get('kind') == 'CXXConstructorDecl' and x['type']['qualType'] == sig and x['id'] not in self.idx.pattern and Index.has_body(x):
                        return x
        return None

    def e_CXXConstructExpr(self, e):
        t = self.ty(e['type'])
        args = e.get('inner', [])
        sig = e.get('ctorType', {}).get('qualType', '')
        if t.kind != 'rec':
            if len(args) == 1:
                return self.expr(args[0])
            raise Unsupported('construct of non-record at %s' % where(e))
        if len(args) == 1 and t.key.startswith('std::vector<') and self.ty(args[0]['type']).noref().name == t.name:
            self.need_record(t)
            et = self.parse_type(split_top(t.key[len('std::vector<'):-1])[0])
            ect = self.cty(et)
            m = mangle(ect)
            h = self.helper('stdvec_copy_%s' % m,
                            'static inline struct %s stdvec_copy_%s(struct %s* s) { struct %s d; d._size = s->_size; d._cap = s->_size; d._data = (%s*)malloc(d._cap * sizeof(%s)); __CPROVER_assume(d._data != 0); return d; }'
                            % (t.name, m, t.name, t.name, ect, ect))
            self.note('std::vector copy modelled: same length, ARBITRARY contents (sound for memory safety only), trusted')
            return '%s(%s)' % (h, self.addr(args[0]))
        if t.key.startswith('std::vector<') and 1 <= len([a for a in args if a.get('kind') != 'CXXDefaultArgExpr']) <= 2 \
                and self.ty(args[0]['type']).noref().kind == 'b':
            self.need_record(t)
            et = self.parse_type(split_top(t.key[len('std::vector<'):-1])[0])
            ect = self.cty(et)
            m = mangle(ect)
            h = self.helper('stdvec_make_%s' % m,
                            'static inline struct %s stdvec_make_%s(unsigned long n) { struct %s d; d._size = n; d._cap = n; d._data = (%s*)malloc(d._cap * sizeof(%s)); __CPROVER_assume(d._data != 0); return d; }'
                            % (t.name, m, t.name, ect, ect))
            self.note('std::vector(n[, value]) modelled: n elements of ARBITRARY contents (fill value not modelled), trusted')
            return '%s(%s)' % (h, self.expr(args[0]))
        # copy / move construction = struct copy
        if len(args) == 1:
            at = self.ty(args[0]['type']).noref()
            plist = split_top(param_text(sig)) if '(' in sig else []
            if at.kind == 'rec' and at.name == t.name and len(plist) == 1 and plist[0].rstrip().endswith('&'):
                self.check_struct_copy(t, e)
                if plist[0].rstrip().endswith('&&'):
                    # MOVE construction from std::move(lvalue): the source is left in a moved-from state;
                    # a spec can observe which object through MOVED_FROM_HOOK (default: no-op)
                    src = args[0]
                    while src.get('kind') in ('ImplicitCastExpr', 'MaterializeTemporaryExpr', 'ExprWithCleanups', 'CXXBindTemporaryExpr', 'ParenExpr') and src.get('inner'):
                        src = src['inner'][0]
                    if src.get('kind') == 'CallExpr' and self.callee_name(src) in ('move', 'std::move') and len(src.get('inner', [])) == 2 and not self.spec.get('move_hooks'):
                        self.note('move construction from std::move(...) at %s: struct copy + MOVED_FROM_HOOK(source)' % where(e))
                        return '(MOVED_FROM_HOOK((void*)%s), %s)' % (self.addr(src['inner'][1]), self.expr(args[0]))
                return self.expr(args[0])
        if t.key.startswith('std::pair<'):
            if len(args) == 2:
                self.need_record(t)
                return '((%s){%s, %s})' % (self.cty(t), self.expr(args[0]), self.expr(args[1]))
            if not args:
                return '((%s){0})' % self.cty(t)
        skey = 'ctor:' + t.key.split('::')[-1].split('<')[0]
        if skey in self.stubs:
            st = self.stubs[skey]
            cname = st['cname'] if isinstance(st, dict) else st
            self.stubs_used.add(cname)
            self.note('construction of %s (%s) replaced by assumed-contract stub %s at %s' % (t.key, sig, cname, where(e)))
            if isinstance(st, dict) and st.get('args') == 'drop':
                return '%s()' % cname
            return '%s(%s)' % (cname, ', '.join(self.expr(a) for a in args))
        ctor = self.ctor_decl_of(e, t)
        if ctor is None:
            if not args:
                self.note('implicit default construction of %s -> zero/default-member init at %s' % (t.name, where(e)))
                return self.default_construct(t, e)
            raise Unsupported('constructor %s of %s not found at %s' % (sig, t.key, where(e)))
        if not Index.has_body(ctor):
            raise Unsupported('constructor %s of %s has no body' % (sig, t.key))
        f = self.request_fn(ctor)
        if getattr(self.cur, 'skeleton', False) and f.text is None and f in self.worklist:
            self.lower_now(f)
        a = self.args_for(ctor, args)
        return '%s(%s)' % (f.cname, ', '.join(a))
    e_CXXTemporaryObjectExpr = e_CXXConstructExpr

    def has_dmi(self, t):
        rec = self.idx.records.get(t.key)
        return bool(rec) and any(c.get('kind') == 'FieldDecl' and c.get('hasInClassInitializer') for c in rec.get('inner', []))

    def default_construct(self, t, e):
        rec = self.idx.records.get(t.key)
        has_dmi = False
        if rec:
            for c in rec.get('inner', []):
                if c.get('kind') == 'FieldDecl' and c.get('hasInClassInitializer'):
                    has_dmi = True
        if has_dmi:
            parts = []
            for c in rec.get('inner', []):
                if c.get('kind') == 'FieldDecl':
                    ini = [x for x in c.get('inner', []) if isinstance(x, dict) and 'valueCategory' in x]
                    parts.append('.%s = %s' % (c['name'], self.expr(ini[0])) if ini else None)
            return '((%s){%s})' % (self.cty(t), ', '.join(p for p in parts if p) or '0')
        return '((%s){0})' % self.cty(t)

    NONTRIVIAL_COPY = ('Vec<', 'Vec_', 'std::vector', 'std::function', 'std::shared_ptr', 'std::map',
                       'std::string', 'std::unique_ptr', 'std::unordered_map')

    def check_struct_copy(self, t, e):
        if t.key.startswith('std::vector<'):
            raise Unsupported('copy of std::vector outside a declaration at %s' % where(e))
        if any(x in t.key for x in self.NONTRIVIAL_COPY) and 'VecView' not in t.key:
            raise Unsupported('copy of owning type %s at %s' % (t.key, where(e)))
        if t.key not in self.struct_copy_ok:
            self.struct_copy_ok.add(t.key)
            self.note('copy/move construction of %s lowered to struct copy' % t.key)

    def e_CXXNewExpr(self, e):
        t = self.ty(e['type'])          # pointer to T
        if e.get('isArray') or t.kind != 'ptr':
            raise Unsupported('array new at %s' % where(e))
        et = t.to
        ct = self.cty(et)
        inits = [c for c in e.get('inner', []) if isinstance(c, dict) and c.get('kind')]
        if e.get('isPlacement'):
            # new (mem) T(init): construct in the caller-supplied storage; the hook lets a spec observe `mem`
            if len(inits) < 1:
                raise Unsupported('placement new shape at %s' % where(e))
            # clang lists the constructor expression first, then the placement argument(s)
            place = inits[-1]
            init = inits[0] if len(inits) > 1 else None
            if init is not None and self.strip(init).get('kind') == 'CXXConstructExpr' and not self.strip(init).get('inner'):
                init = None   # default construction: storage contents left arbitrary
            self.note('placement new lowered to PLACEMENT_NEW_HOOK(mem) + in-place initialisation')
            pm = '((%s*)PLACEMENT_NEW_HOOK(%s))' % (ct, self.expr(place))
            if init is None:
                return pm
            f = self.cur
            name = '__tmp%d' % len(f.tmps)
            f.tmps.append(self.cdecl(t, name))
            return '(%s = %s, *%s = %s, %s)' % (name, pm, name, self.expr(init), name)
        h = self.helper('cxx_new_%s' % mangle(ct),
                        'static inline %s* cxx_new_%s(%s v) { %s* p = (%s*)malloc(sizeof(%s)); __CPROVER_assume(p != 0); *p = v; return p; }'
                        % (ct, mangle(ct), ct, ct, ct, ct))
        self.note('operator new lowered to malloc + initialisation (allocation never fails)')
        if et.kind == 'rec' and (et.key or '').startswith('std::atomic<') and inits:
            ie = self.strip(inits[0])
            arg = ie['inner'][0] if ie.get('kind') == 'CXXConstructExpr' and ie.get('inner') else ie
            return '%s((%s){%s})' % (h, ct, self.expr(arg))
        if inits:
            return '%s(%s)' % (h, self.expr(inits[0]))
        raise Unsupported('new without initialiser at %s' % where(e))

    def e_CXXDeleteExpr(self, e):
        self.note('operator delete lowered to free()')
        return 'free(%s)' % self.expr(e['inner'][0])

    def e_LambdaExpr(self, e):
        """a lambda used as a value (local closure object / argument): the closure struct initialised with its captures"""
        f = self.request_closure(e)
        if f is None:
            return '((struct %s){0})' % mangle(e.get('type', {}).get('qualType', ''))
        if getattr(self.cur, 'skeleton', False) and f.text is None and f in self.worklist:
            try:
                self.lower_now(f)      # a lambda outside the subset drops the statement that creates it
            except Unsupported:
                self.rec_defs.pop(f.closure_ty, None)
                if f.closure_ty in self.rec_order:
                    self.rec_order.remove(f.closure_ty)
                raise
        parts = []
        rec = e['inner'][0]
        fields = [c for c in rec['inner'] if c.get('kind') == 'FieldDecl']
        inits = [c for c in e['inner'][1:] if c.get('kind') != 'CompoundStmt']
        for fd, ini in zip(fields, inits):
            ft = self.ty(fd['type'])
            x = ini
            while x.get('kind') in ('ImplicitCastExpr', 'CXXConstructExpr', 'MaterializeTemporaryExpr', 'ExprWithCleanups') and x.get('inner'):
                x = x['inner'][0]
            if x.get('kind') == 'CXXThisExpr':
                parts.append('.__this = %s' % (self.cur.this_field if getattr(self.cur, 'this_field', None) else 'self'))
                continue
            name = x['referencedDecl']['name']
            if ft.kind == 'ref':
                parts.append('.%s = %s' % (name, self.addr(x)))
            else:
                parts.append('.%s = %s' % (name, self.expr(x)))
        self.note('lambda at %s used as a value: closure object of type struct %s' % (where(e), f.closure_ty))
        return '((struct %s){%s})' % (f.closure_ty, ', '.join(parts) or '0')

    def e_CXXStdInitializerListExpr(self, e):
        raise Unsupported('std::initializer_list at %s' % where(e))

    # -- builtin tables (trusted one-line models of std:: / linalg:: / compiler builtins)
    def helper(self, name, text):
        if name not in self.helpers:
            self.helpers[name] = text
            self.helper_order.append(name)
            self.note('trusted helper: ' + text.split('{')[0].strip())
        return name

    def builtin_call(self, e, r, obj, args):
        name = r.get('name')
        rt = self.ty(e['type'])
        n = len(args)
        sig = r.get('type', {}).get('qualType', '')
        if name in ('__builtin_clz', '__builtin_clzll', '__builtin_ctz', '__builtin_popcount', '__builtin_clzl',
                    '__builtin_inf', '__builtin_nan', '__builtin_fabs', '__builtin_huge_val', '__builtin_nanf', '__builtin_inff'):
            if name in ('__builtin_nanf', '__builtin_nan'):
                return '(%s)(0.0/0.0)' % ('float' if name.endswith('f') else 'double')
            return '%s(%s)' % (name, ', '.join(self.expr(a) for a in args))
        if name in ('malloc', 'free') and n == 1:
            return '%s(%s)' % (name, self.expr(args[0]))
        if name == 'iota' and n == 3:
            self.note('std::iota dropped: target contents left arbitrary (over-approximation) at %s' % where(e))
            return '((void)0)'
        if name in ('min', 'max') and n == 2:
            t = rt.noref()
            ct = self.cty(t)
            h = self.helper('std_%s_%s' % (name, mangle(ct)),
                            'static inline %s std_%s_%s(%s a, %s b) { return %s ? b : a; }' %
                            (ct, name, mangle(ct), ct, ct, '(b < a)' if name == 'min' else '(a < b)'))
            return '%s(%s, %s)' % (h, self.expr(args[0]), self.expr(args[1]))
        if name == 'swap' and n == 2:
            t = self.ty(args[0]['type']).noref()
            ct = self.cty(t)
            h = self.helper('std_swap_%s' % mangle(ct),
                            'static inline void std_swap_%s(%s* a, %s* b) { %s t = *a; *a = *b; *b = t; }' %
                            (mangle(ct), ct, ct, ct))
            return '%s(%s, %s)' % (h, self.addr(args[0]), self.addr(args[1]))
        if name in ('isfinite', 'isnan', 'isinf') and n == 1:
            # IEEE classification by comparisons (goto-cc has no body for the __builtin_ forms)
            h = self.helper('verif_fpclass', 'static inline _Bool verif_isnan(double x) { return x != x; }\n'
                            'static inline _Bool verif_isinf(double x) { return x == (1.0 / 0.0) || x == -(1.0 / 0.0); }\n'
                            'static inline _Bool verif_isfinite(double x) { return x == x && x != (1.0 / 0.0) && x != -(1.0 / 0.0); }')
            return 'verif_%s((double)(%s))' % (name, self.expr(args[0]))
        if name in ('fabs', 'sqrt', 'floor', 'ceil', 'abs', 'fmax', 'fmin', 'round', 'fma', 'copysign') and n >= 1:
            at = self.ty(args[0]['type']).noref()
            if name == 'abs' and at.name in ('double', 'float'):
                name = 'fabs'
            if name == 'abs' and at.name in ('long', 'long long'):
                name = 'labs'
            return '%s(%s)' % (name, ', '.join(self.expr(a) for a in args))
        if name == 'make_pair' and n == 2:
            self.need_record(rt)
            return '((%s){%s, %s})' % (self.cty(rt), self.expr(args[0]), self.expr(args[1]))
        if name in ('infinity', 'max', 'min', 'lowest', 'epsilon', 'quiet_NaN') and n == 0:
            tab = {('infinity', 'double'): '__builtin_inf()', ('infinity', 'float'): '__builtin_inff()',
                   ('max', 'int'): '2147483647', ('min', 'int'): '(-2147483647-1)', ('lowest', 'int'): '(-2147483647-1)',
                   ('max', 'unsigned int'): '4294967295u', ('max', 'unsigned long'): '18446744073709551615UL',
                   ('max', 'long'): '9223372036854775807L', ('max', 'double'): '1.7976931348623157e308',
                   ('lowest', 'double'): '(-1.7976931348623157e308)', ('min', 'double'): '2.2250738585072014e-308',
                   ('epsilon', 'double'): '2.220446049250313e-16', ('quiet_NaN', 'double'): '__builtin_nan("")',
                   ('max', 'float'): '3.40282347e+38F', ('epsilon', 'float'): '1.19209290e-7F',
                   ('max', 'unsigned char'): '255'}
            v = tab.get((name, rt.name))
            if v:
                self.note('std::numeric_limits<%s>::%s() -> %s' % (rt.name, name, v))
                return v
        if name in ('move', 'forward') and n == 1:
            if name == 'move' and self.spec.get('move_hooks') and self.is_lvalue(args[0]):
                # std::move(lvalue): the object is handed over as an rvalue and may be moved from; units that care
                # (handles of the C binding) observe WHICH object through MOVED_FROM_HOOK (default: no-op)
                self.note('std::move(lvalue) at %s: MOVED_FROM_HOOK(&object) emitted' % where(e))
                return '(*(MOVED_FROM_HOOK((void*)%s), %s))' % (self.addr(args[0]), self.addr(args[0]))
            return self.expr(args[0])
        if name == 'distance' and n == 2:
            return '(%s - %s)' % (self.expr(args[1]), self.expr(args[0]))
        if name == 'is_final_scan' and n == 0:
            targs = self.idx._targs(self.cur.node)
            if any('final_scan_tag' in t for t in targs):
                return '1'
            if any('pre_scan_tag' in t for t in targs):
                return '0'
        if name == 'get' and n == 1:
            # std::get<I>(pair/array)
            m = re.search(r'get<(\d+)', json.dumps(e.get('inner', [{}])[0]))
            at = self.ty(args[0]['type']).noref()
            raise Unsupported('std::get at %s' % where(e))
        hook = getattr(self, 'ext_builtin_call', None)
        if hook:
            r2 = hook(e, r, obj, args)
            if r2 is not None:
                return r2
        raise Unsupported('call to external function %s %s at %s' % (name, sig, where(e)))

    def builtin_method(self, e, me, base, obj, args):
        name = me.get('name')
        braw = (base['type'].get('desugaredQualType') or base['type'].get('qualType') or '')
        if 'shared_ptr' in braw and name in ('operator->', 'get', 'operator*', 'operator bool'):
            p = self.expr(base)
            if name == 'operator*':
                return '(*%s)' % p
            if name == 'operator bool':
                return '((%s) != 0)' % p
            return p
        bt = self.ty(base['type']).noref()
        if me.get('isArrow'):
            bt = self.ty(base['type']).deref()
        key = bt.key or ''
        if re.match(r'^tbb::(detail::d\d+::)?blocked_range<', key):
            self.need_record(bt)
            if name in ('begin', 'end'):
                return '(%s)->_%s' % (obj, name)
        if key.startswith('std::pair<') and name == 'operator=' and len(args) == 1:
            self.need_record(bt)
            return '(*(%s) = %s)' % (obj, self.expr(args[0]))
        if key.startswith('std::array<'):
            self.need_record(bt)
            if name == 'operator[]':
                return '(%s)->_M_elems[%s]' % (obj, self.expr(args[0]))
            if name == 'size':
                return '((unsigned long)%s)' % split_top(key[len('std::array<'):-1])[1].rstrip('UL')
        if key.startswith('std::map<') and self.spec.get('model_std_map'):
            self.need_record(bt)
            kv = split_top(key[len('std::map<'):-1])
            et = self.parse_type('std::pair<%s,%s>' % (kv[0], kv[1]))
            self.need_record(et)
            kt, vt = self.parse_type(kv[0]), self.parse_type(kv[1])
            m = mangle(bt.name)
            if name == 'size':
                return '(%s)->_size' % obj
            if name == 'empty':
                return '((%s)->_size == 0)' % obj
            if name == 'operator[]' and len(args) == 1:
                h = self.helper('stdmap_at_%s' % m,
                                'static inline %s* stdmap_at_%s(struct %s* mp, %s k) { for (unsigned long i = 0; i < mp->_size; i++) if (mp->_data[i].first == k) return &mp->_data[i].second; '
                                '__CPROVER_assert(mp->_size < mp->_cap, "std::map model: capacity supplied by the harness suffices"); mp->_data[mp->_size].first = k; return &mp->_data[mp->_size++].second; }'
                                % (self.cty(vt), m, bt.name, self.cty(kt)))
                self.note('std::map::operator[] modelled as find-or-append over the association list; a new entry has an arbitrary value until assigned (trusted)')
                return '(*%s(%s, %s))' % (h, obj, self.expr(args[0]))
        if key.startswith('std::vector<'):
            self.need_record(bt)
            if name == 'operator[]':
                if self.spec.get('index_asserts'):
                    # memory safety of the access as an explicit obligation (units whose SMT back end cannot
                    # afford cbmc's generic pointer checks): index < size of the real vector
                    h = self.helper('idxchk', 'static inline unsigned long idxchk(unsigned long i, unsigned long n) { __CPROVER_assert(i < n, "std::vector index within bounds"); return i; }')
                    return '(%s)->_data[%s((unsigned long)(%s), (%s)->_size)]' % (obj, h, self.expr(args[0]), obj)
                return '(%s)->_data[%s]' % (obj, self.expr(args[0]))
            if name == 'size':
                return '(%s)->_size' % obj
            if name == 'empty':
                return '((%s)->_size == 0)' % obj
            if name == 'data':
                return '(%s)->_data' % obj
            if name == 'begin' or name == 'cbegin':
                return '(%s)->_data' % obj
            if name == 'end' or name == 'cend':
                return '((%s)->_data + (%s)->_size)' % (obj, obj)
            if name == 'back':
                return '(%s)->_data[(%s)->_size - 1]' % (obj, obj)
            if name == 'front':
                return '(%s)->_data[0]' % obj
            et = self.parse_type(split_top(key[len('std::vector<'):-1])[0])
            ect = self.cty(et)
            m = mangle(ect)
            if name in ('resize', 'reserve') and len(args) >= 1:
                h = self.helper('stdvec_%s_%s' % (name, m),
                                'static inline void stdvec_%s_%s(struct %s* v, unsigned long n) { if (n > v->_cap) { v->_cap = n; v->_data = (%s*)malloc(v->_cap * sizeof(%s)); __CPROVER_assume(v->_data != 0); } %s }'
                                % (name, m, bt.name, ect, ect, 'v->_size = n;' if name == 'resize' else ''))
                self.note('std::vector::%s modelled with fresh buffer of arbitrary contents (trusted, over-approximation)' % name)
                return '%s(%s, %s)' % (h, obj, self.expr(args[0]))
            if name == 'push_back' and len(args) == 1:
                h = self.helper('stdvec_push_back_%s' % m,
                                'static inline void stdvec_push_back_%s(struct %s* v, %s x) { if (v->_size >= v->_cap) { v->_cap = v->_cap == 0 ? 1 : 2 * v->_cap; v->_data = (%s*)malloc(v->_cap * sizeof(%s)); __CPROVER_assume(v->_data != 0); } v->_data[v->_size++] = x; }'
                                % (m, bt.name, ect, ect, ect))
                self.note('std::vector::push_back modelled: reallocation loses old contents (arbitrary), trusted')
                return '%s(%s, %s)' % (h, obj, self.expr(args[0]))
            if name == 'operator=' and len(args) == 1:
                vals = self.init_list_exprs(args[0])
                if vals is not None:
                    hr = self.helper('stdvec_resize_%s' % m,
                                     'static inline void stdvec_resize_%s(struct %s* v, unsigned long n) { if (n > v->_cap) { v->_cap = n; v->_data = (%s*)malloc(v->_cap * sizeof(%s)); __CPROVER_assume(v->_data != 0); } v->_size = n; }'
                                     % (m, bt.name, ect, ect))
                    parts = ['%s(%s, %d)' % (hr, obj, len(vals))] + ['(%s)->_data[%d] = %s' % (obj, k, v) for k, v in enumerate(vals)]
                    return '(%s)' % ', '.join(parts)
        if key.startswith('std::__atomic_base<'):
            # base-class subobject of std::atomic<T>: same model
            key = 'std::atomic<' + key[len('std::__atomic_base<'):]
            bt = self.parse_type(key)
            obj = '((struct %s*)%s)' % (bt.name, obj)
        if key.startswith('std::atomic<'):
            self.need_record(bt)
            self.note('std::atomic operation %s lowered sequentially (seq_cst, single thread)' % name)
            if self.spec.get('atomic_hooks'):
                # rely/guarantee units: a hook runs immediately BEFORE every atomic operation (the points where other
                # threads' steps can interleave under the seq_cst model); the spec defines what interference it models
                self.note('ATOMIC_ACCESS_HOOK() emitted before every std::atomic operation')
                inner = self._atomic_op(e, name, obj, args)
                return '(ATOMIC_ACCESS_HOOK(), %s)' % inner
            return self._atomic_op(e, name, obj, args)
        hook = getattr(self, 'ext_builtin_method', None)
        if hook:
            r2 = hook(e, me, base, obj, args)
            if r2 is not None:
                return r2
        raise Unsupported('method %s on external type %s at %s' % (name, key, where(e)))

    def _atomic_op(self, e, name, obj, args):
            if name == 'load' or name.startswith('operator '):
                return '(%s)->_v' % obj
            if name == 'operator=' and len(args) == 1:
                return '((%s)->_v = %s)' % (obj, self.expr(args[0]))
            if name == 'store':
                return '((%s)->_v = %s)' % (obj, self.expr(args[0]))
            if name == 'fetch_add':
                t = self.ty(e['type'])
                h = self.helper('atomic_fetch_add_%s' % mangle(self.cty(t)),
                                'static inline %s atomic_fetch_add_%s(%s* p, %s v) { __CPROVER_atomic_begin(); %s o = *p; *p = o + v; __CPROVER_atomic_end(); return o; }' %
                                ((self.cty(t), mangle(self.cty(t))) + (self.cty(t),) * 3))
                return '%s(&(%s)->_v, %s)' % (h, obj, self.expr(args[0]))
            if name == 'fetch_sub':
                t = self.ty(e['type'])
                h = self.helper('atomic_fetch_sub_%s' % mangle(self.cty(t)),
                                'static inline %s atomic_fetch_sub_%s(%s* p, %s v) { __CPROVER_atomic_begin(); %s o = *p; *p = o - v; __CPROVER_atomic_end(); return o; }' %
                                ((self.cty(t), mangle(self.cty(t))) + (self.cty(t),) * 3))
                return '%s(&(%s)->_v, %s)' % (h, obj, self.expr(args[0]))
            if name in ('compare_exchange_strong', 'compare_exchange_weak'):
                t = self.ty(args[0]['type']).noref()
                ct = self.cty(t)
                h = self.helper('atomic_cas_%s' % mangle(ct),
                                'static inline _Bool atomic_cas_%s(%s* p, %s* exp, %s des) { _Bool ok; __CPROVER_atomic_begin(); if (*p == *exp) { *p = des; ok = 1; } else { *exp = *p; ok = 0; } __CPROVER_atomic_end(); return ok; }' %
                                (mangle(ct), ct, ct, ct))
                return '%s(&(%s)->_v, %s, %s)' % (h, obj, self.addr(args[0]), self.expr(args[1]))
            raise Unsupported('std::atomic method %s at %s' % (name, where(e)))

    # ---- output
    def emit(self):
        out = []
        out.append('/* generated by cxx2c from %s -- do not edit */' % REPO)
        out.append('#include <stddef.h>\n#include <math.h>\n')
        for n in sorted(self.rec_fwd | set(self.rec_order)):
            out.append('struct %s;' % n)
        for n in self.rec_order:
            out.append(self.rec_defs[n])
        for q in self.spec.get('export_enums', []):
            en = self.idx.enums.get(q)
            if en is None:
                raise InfraError('contract no longer attached: enum %s not found' % q)
            val = 0
            for c in en.get('inner', []):
                if c.get('kind') != 'EnumConstantDecl':
                    continue
                v = None
                for x in c.get('inner', []):
                    v = self.const_value(x)
                if v is not None:
                    val = v
                out.append('#define ENUM_%s_%s %d' % (mangle(q), c['name'], val))
                val += 1
            out.append('#define ENUMCOUNT_%s %d' % (mangle(q), sum(1 for c in en.get('inner', []) if c.get('kind') == 'EnumConstantDecl')))
        out.append('/*@TYPES_END@*/')
        for h in self.helper_order:
            out.append(self.helpers[h])
        for g in self.global_order:
            out.append(self.globals[g])
        for f in self.fn_order:
            out.append(f.proto)
        for c, p in self.stub_protos.items():
            out.append(p)
        out.append('/*@PROTOS_END@*/')
        for f in self.fn_order:
            out.append(f.text)
        return '\n'.join(out) + '\n'


def param_text(sig):
    """text between the first '(' of a function type and its matching ')'"""
    i = sig.find('(')
    d = 0
    for j in range(i, len(sig)):
        if sig[j] == '(':
            d += 1
        elif sig[j] == ')':
            d -= 1
            if d == 0:
                return sig[i + 1:j]
    return sig[i + 1:]


def balanced(s):
    d = 0
    for ch in s:
        if ch == '(':
            d += 1
        elif ch == ')':
            d -= 1
            if d < 0:
                return False
    return d == 0
