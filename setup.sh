#!/bin/sh
# offline setup: check tools, pre-build caches (AST dumps are rebuilt per check from /repo's working tree)
set -e
cd "$(dirname "$0")"
for t in clang++ goto-cc goto-instrument cbmc kissat cvc5 g++ python3; do command -v $t >/dev/null || { echo "missing tool $t"; exit 1; }; done
mkdir -p build evidence
python3 tools/prewarm.py || true
echo setup ok
