/* C08: "the same property values at every triangle corner (bit-exact ...)" -- import must not fuse property
 * vertices that differ in any channel; C07: property values stay those of the source. */
#include "halfedge_spec.h"
#ifdef SPEC_CONTRACTS
#ifndef NUMPROP
#define NUMPROP 3
#endif
unsigned long ghost_q;   /* arbitrary channel */
#define PROPS (self->__this->properties_._base0.ptr_)
#define LOOPSPEC_DedupeProp_body_0 \
  __CPROVER_assigns(p, propEqual) \
  __CPROVER_loop_invariant(p <= self->numProp && \
     (propEqual ? (ghost_q < p ? PROPS[self->numProp * prop0 + ghost_q] == PROPS[self->numProp * prop1 + ghost_q] : 1) : 1)) \
  __CPROVER_decreases(self->numProp - p)
#endif
#ifdef SPEC_HARNESS
void h_dedupe(void) {
  struct Manifold_Impl impl;
  struct DedupeProp_body_closure c;
  unsigned long nt = nondet_ulong(), npv = nondet_ulong();
  __CPROVER_assume(nt >= 1 && nt <= 100000000ul && npv >= 1 && npv <= 100000000ul);
  ALLOC_HALFEDGES(impl.halfedge_, 3 * nt);
  ALLOC_VIEW(impl.meshRelation_.triRef._base0, struct TriRef, nt);
  ALLOC_VIEW(impl.properties_._base0, double, NUMPROP * npv);
  struct Vec_std_pair_int_int_0 v2v;
  ALLOC_VIEW(v2v._base0, struct std_pair_int_int, 3 * nt);
  c.__this = &impl; c.vert2vert = &v2v; c.numProp = NUMPROP;
  int e = nondet_int();
  __CPROVER_assume(0 <= e && (unsigned long)e < 3 * nt);
  /* C01 invariant of the mesh at e: pair in range or tombstone, prop vertices in range */
  int pr = HPAIR(&impl.halfedge_, e);
  __CPROVER_assume(pr == -1 || (0 <= pr && (unsigned long)pr < 3 * nt));
  int p0 = HPROP(&impl.halfedge_, e);
  __CPROVER_assume(0 <= p0 && (unsigned long)p0 < npv);
  if (pr >= 0) { int p1 = HPROP(&impl.halfedge_, NEXT3(pr)); __CPROVER_assume(0 <= p1 && (unsigned long)p1 < npv); }
  ghost_q = nondet_ulong();   /* arbitrary channel (globals are zero-initialised) */
  __CPROVER_assume(ghost_q < NUMPROP);
  struct std_pair_int_int before = v2v._base0.ptr_[e];
  HARNESS_END;
  SATISFIABLE(ghost_q == NUMPROP - 1 && pr >= 0);
  DedupeProp_body(&c, e);
  struct std_pair_int_int after = v2v._base0.ptr_[e];
  _Bool recorded = !(after.first == before.first && after.second == before.second);
  if (recorded) {
    int p1 = HPROP(&impl.halfedge_, NEXT3(pr));
    __CPROVER_assert(pr >= 0 && after.first == p0 && after.second == p1, "only the two property vertices meeting across this edge are recorded");
    __CPROVER_assert(impl.meshRelation_.triRef._base0.ptr_[e / 3].meshID == impl.meshRelation_.triRef._base0.ptr_[pr / 3].meshID, "only within one mesh instance");
    __CPROVER_assert(impl.properties_._base0.ptr_[NUMPROP * (unsigned long)p0 + ghost_q] == impl.properties_._base0.ptr_[NUMPROP * (unsigned long)p1 + ghost_q],
                     "recorded as mergeable only if EVERY property channel is equal");
  }
}
#endif
