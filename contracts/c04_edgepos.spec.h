/* C04: "EdgePos ordered by position then collisionId" (boolean_result.cpp:191-202):
 * a strict weak order whose only ties are records with equal position AND equal
 * collisionId, so std::stable_sort's output does not depend on arrival order
 * of records with distinct collision ids. */
#ifdef SPEC_HARNESS
#define EP_LT(x, y) EdgePos_lt(&(x), &(y))
void h_EdgePos_order(void) {
  struct EdgePos a, b, c;
  /* positions are finite or infinite but not NaN (they are interpolated coordinates that passed IsFinite) */
  __CPROVER_assume(a.edgePos == a.edgePos && b.edgePos == b.edgePos && c.edgePos == c.edgePos);
  ASSERT_STRICT_ORDER(EP_LT, a, b, c);
  __CPROVER_assert(IMPLIES(a.collisionId != b.collisionId, EP_LT(a, b) || EP_LT(b, a)),
                   "total on distinct collision ids (no schedule-dependent ties)");
  __CPROVER_assert(IMPLIES(a.edgePos < b.edgePos, EP_LT(a, b)), "position is the primary key");
  __CPROVER_assert(IMPLIES(a.edgePos == b.edgePos, EP_LT(a, b) == (a.collisionId < b.collisionId)),
                   "collisionId breaks position ties");
  HARNESS_END;
}
#endif
