/* C17: "invalid arguments give InvalidConstruction"; C09: "for any ... numeric argument ... never ... overflows": LevelSet's
 * grid is sized by converting (box size / edgeLength + 1) to int (finding 16). */
#ifdef SPEC_CONTRACTS
struct Manifold_Impl;
int ghost_empty_calls, ghost_empty_err, ghost_fell;
void stub_MakeEmpty(struct Manifold_Impl* self, int err);
_Bool stub_IsCancelled(void);
#undef REGION_FALLTHROUGH
#define REGION_FALLTHROUGH (ghost_fell = 1)
#endif
#ifdef SPEC_HARNESS
#define FIN(x) ((x) == (x) && (x) != __builtin_inf() && (x) != -__builtin_inf())
void stub_MakeEmpty(struct Manifold_Impl* self, int err) { ghost_empty_calls++; ghost_empty_err = err; }
_Bool stub_IsCancelled(void) { return 0; }
void h_levelset_args(void) {
  struct Manifold_Impl impl; struct std_function_opaque sdf; struct Box b;
  double edge = nondet_double(), level = nondet_double(), tol = nondet_double();
  ghost_empty_calls = 0; ghost_fell = 0;
  _Bool boxfin = FIN(b.min.x) && FIN(b.min.y) && FIN(b.min.z) && FIN(b.max.x) && FIN(b.max.y) && FIN(b.max.z);
  _Bool bad = !boxfin || !(edge > 0) || !FIN(level);
  /* a plainly usable request: a box within [-100, 100]^3, cells of at least 0.1 */
  _Bool plain = boxfin && FIN(level) && edge >= 0.1 && FIN(edge) &&
                b.min.x >= -100 && b.min.y >= -100 && b.min.z >= -100 && b.max.x <= 100 && b.max.y <= 100 && b.max.z <= 100 &&
                b.min.x <= b.max.x && b.min.y <= b.max.y && b.min.z <= b.max.z;
  __CPROVER_assume(bad || plain);     /* the size bound in between (more than INT_MAX cells) needs the IEEE quotient: driver-only */
  HARNESS_END;
  SATISFIABLE(plain);
  LevelSet_head(&impl, sdf, b, edge, level, tol, nondet_bool(), 0);
  __CPROVER_assert(IMPLIES(bad, ghost_empty_calls == 1 && ghost_empty_err == 11 && !ghost_fell), "a non-finite box, a non-positive or NaN edge length or a non-finite level gives InvalidConstruction before the grid is sized");
  __CPROVER_assert(IMPLIES(plain, ghost_empty_calls == 0 && ghost_fell), "a plainly usable request goes on to build the grid");
}
#endif
