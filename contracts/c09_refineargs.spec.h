/* C09: "for any ... numeric argument, every ... operation returns normally ...; it never ... overflows": the per-edge
 * division count of RefineToLength / RefineToTolerance is a real-valued estimate (length(edge) / length,
 * sqrt(3 d / (4 tolerance))) that is infinite or NaN for a zero or NaN argument and beyond int for tiny ones. */
#ifdef SPEC_HARNESS
void h_divisions(void) {
  double x = nondet_double();
  HARNESS_END;
  SATISFIABLE(x != x);
  int n = BoundedDivisions(x);
  __CPROVER_assert(0 <= n && n <= (1 << 24), "the count is never negative and never beyond the bound");
  __CPROVER_assert(IMPLIES(!(x > 0), n == 0), "a non-positive or NaN estimate means no extra vertices");
  __CPROVER_assert(IMPLIES(x > 0 && x < 16777216.0, (double)n <= x && x < (double)n + 1), "an estimate within range is truncated, nothing else");
  __CPROVER_assert(IMPLIES(x >= 16777216.0, n == (1 << 24)), "a huge or infinite estimate is capped");
}
#endif
