/* C01: "every directed edge occurs exactly once and is matched by exactly one opposite edge" -- the
 * edit primitives of the simplifier keep the pairing an involution and remove whole triangles only. */
#include "halfedge_spec.h"
#ifdef SPEC_HARNESS
#define NH_MAX 300000000ul
#define IN(x, n) (0 <= (x) && (unsigned long)(x) < (n))
static void mk_impl(struct Manifold_Impl *impl, unsigned long nt, unsigned long nv) {
  ALLOC_HALFEDGES(impl->halfedge_, 3 * nt);
  __CPROVER_assume(HALFEDGES_UNIQUE(&impl->halfedge_));
  ALLOC_VIEW(impl->vertPos_._base0, struct linalg_vec_double_3, nv);
}
#define SNAP(h, g, S, P, Q) int S = HSTART(h, g), P = HPAIR(h, g), Q = HPROP(h, g)
#define SAME_AS(h, g, S, P, Q) (HSTART(h, g) == S && HPAIR(h, g) == P && HPROP(h, g) == Q)

void h_PairUp(void) {
  struct Manifold_Impl impl;
  unsigned long nt = nondet_ulong();
  __CPROVER_assume(nt >= 1 && nt <= NH_MAX / 3);
  mk_impl(&impl, nt, 1);
  struct Halfedges *h = &impl.halfedge_;
  int e0 = nondet_int(), e1 = nondet_int(), g = nondet_int();
  __CPROVER_assume(IN(e0, 3 * nt) && IN(e1, 3 * nt) && IN(g, 3 * nt));
  SNAP(h, g, gs, gp, gq); SNAP(h, e0, s0, p0, q0); SNAP(h, e1, s1, p1, q1);
  HARNESS_END;
  Impl_PairUp(&impl, e0, e1);
  __CPROVER_assert(HPAIR(h, e0) == e1 && HPAIR(h, e1) == e0, "PairUp makes the two halfedges each other's pair");
  __CPROVER_assert(HSTART(h, e0) == s0 && HPROP(h, e0) == q0 && HSTART(h, e1) == s1 && HPROP(h, e1) == q1, "vertices of the paired halfedges are untouched");
  __CPROVER_assert(IMPLIES(g != e0 && g != e1, SAME_AS(h, g, gs, gp, gq)), "frame: no other halfedge is written");
}

void h_CollapseTri(void) {
  struct Manifold_Impl impl;
  unsigned long nt = nondet_ulong();
  __CPROVER_assume(nt >= 1 && nt <= NH_MAX / 3);
  mk_impl(&impl, nt, 1);
  struct Halfedges *h = &impl.halfedge_;
  unsigned long n = 3 * nt;
  struct linalg_vec_int_3 t;
  int g = nondet_int();
  /* call sites (CollapseEdge, edge_op.cpp): triEdge = TriOf(edge), the three halfedges of one triangle */
  __CPROVER_assume(IN(t.x, n) && t.x % 3 == 0 && t.y == t.x + 1 && t.z == t.x + 2 && IN(g, n));
  /* C01 invariant at the slots the function reads: a triangle is live or fully tombstoned; live pairs are reciprocal */
  int pr0 = HPAIR(h, t.x), pr1 = HPAIR(h, t.y), pr2 = HPAIR(h, t.z);
  __CPROVER_assume((pr1 == -1) == (pr2 == -1) && (pr1 == -1) == (pr0 == -1));
  __CPROVER_assume(pr1 == -1 || (IN(pr1, n) && IN(pr2, n) && IN(pr0, n) && HPAIR(h, pr1) == t.y && HPAIR(h, pr2) == t.z && HPAIR(h, pr0) == t.x));
  /* "no triangle repeats a vertex": a triangle's halfedges are never paired with each other */
  __CPROVER_assume(pr1 == -1 || (pr0 / 3 != t.x / 3 && pr1 / 3 != t.x / 3 && pr2 / 3 != t.x / 3));
  __CPROVER_assume(HE_PAIRING(h, n, g) && IMPLIES(HPAIR(h, g) >= 0, HE_PAIRING(h, n, HPAIR(h, g))));
  SNAP(h, g, gs, gp, gq);
  int q0 = HPROP(h, t.x), q1 = HPROP(h, t.y), q2 = HPROP(h, t.z);
  HARNESS_END;
  Impl_CollapseTri(&impl, &t);
  if (pr1 == -1) {
    __CPROVER_assert(SAME_AS(h, g, gs, gp, gq), "an already removed triangle is left alone");
  } else {
    __CPROVER_assert(HPAIR(h, pr1) == pr2 && HPAIR(h, pr2) == pr1, "the two outer neighbours across edges 1 and 2 are paired with each other");
    __CPROVER_assert(HPAIR(h, t.x) == -1 && HPAIR(h, t.y) == -1 && HPAIR(h, t.z) == -1 && HSTART(h, t.x) == -1 && HSTART(h, t.y) == -1 && HSTART(h, t.z) == -1,
                     "the collapsed triangle becomes a tombstone (pair == -1 exactly, start == -1)");
    __CPROVER_assert(HPROP(h, t.x) == q0 && HPROP(h, t.y) == q1 && HPROP(h, t.z) == q2, "its property vertices are kept for the caller");
    __CPROVER_assert(IMPLIES(g != t.x && g != t.y && g != t.z && g != pr1 && g != pr2, SAME_AS(h, g, gs, gp, gq)), "frame: only the triangle and the two re-paired neighbours are written");
    /* the partner across edge 0 is deliberately left pointing at the tombstone: the caller collapses that triangle next */
    __CPROVER_assert(IMPLIES(g != pr0, HE_PAIRING(h, n, g)), "pairing stays an involution everywhere except at the old partner of edge 0");
  }
}

void h_RemoveIfFolded(void) {
  struct Manifold_Impl impl;
  unsigned long nt = nondet_ulong(), nv = nondet_ulong();
  __CPROVER_assume(nt >= 2 && nt <= NH_MAX / 3 && nv >= 1 && nv <= NH_MAX);
  mk_impl(&impl, nt, nv);
  struct Halfedges *h = &impl.halfedge_;
  unsigned long n = 3 * nt;
  int edge = nondet_int(), g = nondet_int();
  __CPROVER_assume(IN(edge, n) && IN(g, n));
  int pe = HPAIR(h, edge);
  /* call sites (FormLoop, CollapseEdge): edge is a live halfedge with a reciprocal pair in another triangle */
  __CPROVER_assume(IN(pe, n) && HPAIR(h, pe) == edge && pe / 3 != edge / 3);
  int a0 = edge, a1 = NEXT3(a0), a2 = NEXT3(a1), b0 = pe, b1 = NEXT3(b0), b2 = NEXT3(b1);
  /* C01 invariant at the slots read: liveness per triangle, reciprocal in-range pairs, start vertices in range */
  int pa1 = HPAIR(h, a1), pa2 = HPAIR(h, a2), pb1 = HPAIR(h, b1), pb2 = HPAIR(h, b2);
  __CPROVER_assume((pa1 == -1) == (pa2 == -1));
  __CPROVER_assume(pa1 == -1 || (IN(pa1, n) && IN(pa2, n) && IN(pb1, n) && IN(pb2, n) && HPAIR(h, pa1) == a1 && HPAIR(h, pa2) == a2 && HPAIR(h, pb1) == b1 && HPAIR(h, pb2) == b2));
  __CPROVER_assume(pa1 == -1 || (pa1 / 3 != a0 / 3 && pa2 / 3 != a0 / 3 && pb1 / 3 != b0 / 3 && pb2 / 3 != b0 / 3));   /* no triangle repeats a vertex */
  __CPROVER_assume(pa1 == -1 || (IN(HSTART(h, a0), nv) && IN(HSTART(h, a1), nv) && IN(HSTART(h, a2), nv) && IN(HSTART(h, b1), nv) && IN(HSTART(h, b2), nv)));
  __CPROVER_assume(HE_PAIRING(h, n, g) && IMPLIES(HPAIR(h, g) >= 0, HE_PAIRING(h, n, HPAIR(h, g))));
  SNAP(h, g, gs, gp, gq);
  _Bool folded = pa1 != -1 && HSTART(h, a2) == HSTART(h, b2);   /* the two triangles share all three vertices */
  /* C01 "every vertex is referenced": a0: A->B, a1: B->C, a2: C->A and, oppositely, b0: B->A, b1: A->C, b2: C->B.
   * Walking the fan of triangles around a vertex of a manifold (incoming halfedge -> its pair -> ...) stays inside the
   * folded pair exactly when: around B pair(a1) == b2; around A pair(a2) == b1; around C both.  Such a vertex loses
   * every triangle it had, so it must become a tombstone (NaN position) -- SimplifyTopology callers outside the
   * Boolean do not run RemoveUnreferencedVerts afterwards. */
  int vA = HSTART(h, a0), vB = HSTART(h, a1), vC = HSTART(h, a2);
  /* C01 invariant at these slots: a pair runs between the same two vertices in opposite directions; no triangle repeats a vertex */
  __CPROVER_assume(pa1 == -1 || (HSTART(h, b0) == vB && HSTART(h, b1) == vA && vA != vB && vB != vC && vA != vC));
  _Bool isoB = pa1 == b2, isoA = pa2 == b1, isoC = isoA && isoB;
  unsigned long w = nondet_ulong(); __CPROVER_assume(w < nv);   /* ghost: any vertex */
  struct linalg_vec_double_3 w0 = impl.vertPos_._base0.ptr_[w];
  HARNESS_END;
  Impl_RemoveIfFolded(&impl, edge);
#ifdef JOB_RemoveIfFolded_verts
  if (folded) {
    struct linalg_vec_double_3 *vp = impl.vertPos_._base0.ptr_;
    __CPROVER_assert(IMPLIES(isoA, vp[vA].x != vp[vA].x) && IMPLIES(isoB, vp[vB].x != vp[vB].x) && IMPLIES(isoC, vp[vC].x != vp[vC].x),
                     "a vertex whose only triangles were the folded pair becomes a NaN tombstone (it is referenced by nothing afterwards)");
    _Bool w_removed = ((int)w == vA && isoA) || ((int)w == vB && isoB) || ((int)w == vC && isoC);
    __CPROVER_assert(IMPLIES(!w_removed, __CPROVER_equal(vp[w], w0)), "every other vertex keeps its position (a vertex still used by a neighbouring triangle is not removed)");
  } else {
    __CPROVER_assert(__CPROVER_equal(impl.vertPos_._base0.ptr_[w], w0), "a pair that is not folded: no vertex position is written");
  }
#endif
  _Bool mine = g == a0 || g == a1 || g == a2 || g == b0 || g == b1 || g == b2;
  if (!folded) {
    __CPROVER_assert(SAME_AS(h, g, gs, gp, gq), "a pair of triangles that is not folded is left alone");
  } else {
    __CPROVER_assert(IMPLIES(mine, HSTART(h, g) == -1 && HPAIR(h, g) == -1 && HPROP(h, g) == -1), "both folded triangles become full tombstones");
    __CPROVER_assert(IMPLIES(!mine && g != pa1 && g != pa2 && g != pb1 && g != pb2, SAME_AS(h, g, gs, gp, gq)), "frame: only the two triangles and their four outer neighbours are written");
    __CPROVER_assert(IMPLIES(!mine, HSTART(h, g) == gs && HPROP(h, g) == gq), "neighbours keep their vertices");
    __CPROVER_assert(HE_PAIRING(h, n, g), "pairing stays an involution at every halfedge");
  }
}
#endif
