/* C13: "Concurrent unite/find on the union-find structure yields the partition a sequential run over the same
 * pairs yields" -- rely/guarantee over the real unite / findImpl.
 * Ghost REP[i] = current root of i.  Concurrent forest invariant INVC (for all i < GN): bit 63 clear, parent in
 * range, a non-root's (rank, -index) is strictly below its parent's (ties are possible between the link and the
 * rank bump), REP[i] is a root in i's tree, a root represents itself.
 * RELY (what other threads may do between two atomic operations of this thread): INVC still holds for some
 * partition that only MERGES classes of the old one, ranks never decrease, a non-root stays a non-root and keeps
 * its rank.  GUARANTEE (each successful CAS of this thread, index k, new parent field p): INVC holds for the
 * partition in which k's class is merged into p's class (identity for path halving and rank bumps).
 * Soundness of the decomposition (every thread satisfies GUARANTEE => RELY is what threads see) is the standard
 * rely/guarantee rule and is NOT mechanised here. */
#ifdef SPEC_CONTRACTS
#ifdef GN_FIXED
#define GN ((unsigned long)GN_FIXED)
#else
unsigned long GN;
#endif
unsigned int *REP;
struct DisjointSets;
struct DisjointSets *G_self;
#define DG_(i) (G_self->mData._data[i]._v)
#define PARG_(i) ((unsigned int)DG_(i))
#define RANKG_(i) (((unsigned int)(DG_(i) >> 32)) & 2147483647u)
#define BELOW(i, j) (RANKG_(i) < RANKG_(j) || (RANKG_(i) == RANKG_(j) && (i) > (j)))
#define INVC_AT(R, i) ((DG_(i) >> 63) == 0 && PARG_(i) < GN && (PARG_(i) != (i) ? BELOW((i), PARG_(i)) : 1) && \
                       (R)[i] < GN && PARG_((R)[i]) == (R)[i] && (R)[PARG_(i)] == (R)[i] && (PARG_(i) == (i) ? (R)[i] == (i) : 1))
#define INVC_ALL(R) __CPROVER_forall { unsigned long qi; (qi < GN) ==> INVC_AT(R, qi) }
/* trusted arithmetic fact, assumed in every state: a root of rank r has at least 2^r descendants and there are
 * fewer than 2^32 elements, so ranks stay far below the 31-bit field (counting argument, not mechanised) */
#define RANKS_SMALL __CPROVER_forall { unsigned long qr; (qr < GN) ==> RANKG_(qr) < 64 }
int ghost_interferences, ghost_own_writes;
static void interfere(void);
#define ATOMIC_ACCESS_HOOK() interfere()
#endif
#ifdef SPEC_CONTRACTS
/* the CAS of the thread under test: performed by the real helper, then checked against the GUARANTEE */
static _Bool rg_cas(unsigned long *p, unsigned long *exp, unsigned long des);
static inline _Bool real_cas(unsigned long *p, unsigned long *exp, unsigned long des) { return atomic_cas_unsigned_long(p, exp, des); }
#define atomic_cas_unsigned_long rg_cas
/* unite's calls to findImpl: a completed find under interference returns SOME element of id's class (a root when it
 * was read, possibly no longer one); findImpl's own steps are checked by job findImpl_step */
unsigned int stub_findImpl_rg(struct DisjointSets *self, unsigned int id);
#endif
#ifdef SPEC_HARNESS
static void interfere(void) {
  ghost_interferences++;
  unsigned long *old = malloc(G_self->mData._size * sizeof(unsigned long));
  unsigned int *nr = malloc(G_self->mData._size * sizeof(unsigned int));
  unsigned int *M = malloc(G_self->mData._size * sizeof(unsigned int));
  unsigned int *oldrep = REP;
  __CPROVER_assume(old != 0 && nr != 0 && M != 0);
  __CPROVER_assume(__CPROVER_forall { unsigned long q1; (q1 < GN) ==> old[q1] == DG_(q1) });
  __CPROVER_havoc_object(G_self->mData._data);
  __CPROVER_assume(__CPROVER_forall { unsigned long q2; (q2 < GN) ==> nr[q2] == M[oldrep[q2]] });       /* classes only merge */
  REP = nr;
  __CPROVER_assume(INVC_ALL(REP));
  __CPROVER_assume(RANKS_SMALL);
  __CPROVER_assume(__CPROVER_forall { unsigned long q3; (q3 < GN) ==>
      ((((unsigned int)(old[q3] >> 32)) & 2147483647u) <= RANKG_(q3) &&
       ((unsigned int)old[q3] != q3 ? (PARG_(q3) != q3 && RANKG_(q3) == (((unsigned int)(old[q3] >> 32)) & 2147483647u)) : 1)) });
}
static _Bool rg_cas(unsigned long *p, unsigned long *exp, unsigned long des) {
  unsigned long k = __CPROVER_POINTER_OFFSET(p) / sizeof(struct std_atomic_unsigned_long);
  __CPROVER_assert(__CPROVER_same_object(p, G_self->mData._data) && k < GN, "CAS targets an entry of the table");
  unsigned int oldrank = RANKG_(k);
  _Bool wasroot = PARG_(k) == k;
  _Bool ok = real_cas(p, exp, des);
  if (ok) {
    ghost_own_writes++;
    __CPROVER_assume(RANKS_SMALL);
    unsigned int np = (unsigned int)des;
    __CPROVER_assert(np < GN, "GUARANTEE: the new parent is an element");
    unsigned int *r2 = malloc(G_self->mData._size * sizeof(unsigned int));
    __CPROVER_assume(r2 != 0);
    unsigned int ck = REP[k], cp = np < GN ? REP[np] : 0;
    __CPROVER_assume(__CPROVER_forall { unsigned long q4; (q4 < GN) ==> r2[q4] == (REP[q4] == ck ? cp : REP[q4]) });
    REP = r2;
    __CPROVER_assert(INVC_ALL(REP), "GUARANTEE: after this thread's successful CAS the forest invariant holds for the partition with k's class merged into the new parent's class (no other thread's link is lost)");
    __CPROVER_assert(RANKG_(k) >= oldrank && (wasroot || (PARG_(k) != k && RANKG_(k) == oldrank)), "GUARANTEE: ranks never decrease; a non-root stays a non-root and keeps its rank");
  }
  return ok;
}
unsigned int stub_findImpl_rg(struct DisjointSets *self, unsigned int id) {
  __CPROVER_assert(id < GN, "findImpl precondition: id is an element");
  interfere();
  unsigned int r = nondet_uint();
  __CPROVER_assume(r < GN && REP[r] == REP[id]);
  return r;
}
static void rg_setup(struct DisjointSets *self) {
#ifndef GN_FIXED
  GN = nondet_ulong();
  __CPROVER_assume(GN >= 1 && GN <= 4294967295ul);
#endif
  self->mData._size = GN; self->mData._cap = GN;
  self->mData._data = malloc(self->mData._size * sizeof(struct std_atomic_unsigned_long));
  REP = malloc(self->mData._size * sizeof(unsigned int));
  __CPROVER_assume(self->mData._data != 0 && REP != 0);
  G_self = self;
  __CPROVER_assume(INVC_ALL(REP));
  __CPROVER_assume(RANKS_SMALL);
  ghost_interferences = 0; ghost_own_writes = 0;
}
/* one arbitrary iteration of findImpl's loop from an arbitrary consistent state: its CAS must satisfy the GUARANTEE */
void h_findimpl_step(void) {
  struct DisjointSets ds;
  rg_setup(&ds);
  unsigned int id = nondet_uint();
  __CPROVER_assume(id < GN);
  HARNESS_END;
  (void)DisjointSets_findImpl(&ds, id);
  SATISFIABLE(ghost_own_writes >= 1 && ghost_interferences >= 3);
  __CPROVER_assert(1, "guarantee obligations are inside rg_cas");
}
/* one arbitrary iteration of unite's retry loop: GUARANTEE at each CAS, and a call that completes in this iteration
 * leaves its two arguments in one class */
void h_unite_step(void) {
  struct DisjointSets ds;
  rg_setup(&ds);
  unsigned long a = nondet_ulong(), b = nondet_ulong();
  __CPROVER_assume(a < GN && b < GN);
  HARNESS_END;
  (void)DisjointSets_unite(&ds, a, b);
  SATISFIABLE(ghost_own_writes >= 2 && ghost_interferences >= 4);   /* link + rank bump both happen, with interference in between */
  /* reached only on the paths that return within the iteration (the retry paths are cut by --unwind 1) */
  __CPROVER_assert(REP[a] == REP[b], "a completed unite(a,b) leaves a and b in one class, whatever the other threads did meanwhile");
}
#endif
