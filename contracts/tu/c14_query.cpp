// instantiates Collider::Collisions / FindCollision with a plain functor query source and a pair-recording sink
// (harness-side helper types only; the traversal code comes from /repo/src/collider.h)
#include "/repo/src/collider.h"
namespace verif {
struct PairSink {
  int* out;   // pairs (query, leaf)
  int cap;
  int n;
  void operator()(int q, int l) {
    if (n < cap) {
      out[2 * n] = q;
      out[2 * n + 1] = l;
    }
    ++n;
  }
};
struct BoxAt {
  const manifold::Box* b;
  manifold::Box operator()(const int i) const { return b[i]; }
};
inline void Query(const manifold::Collider& c, BoxAt f, int n, PairSink& s) {
  auto r = manifold::MakeSimpleRecorder(s);
  c.Collisions<false>(r, f, n, false);
}
}  // namespace verif
