// PAR-only templates of parallel.h are never compiled by the serial test build; this TU forces the
// instantiations under contract (compile with -DMANIFOLD_PAR=1).  verif::* are harness-side helper types.
#include "/repo/src/parallel.h"
namespace verif {
// associative, NON-commutative operator with two-sided identity 0 ("first non-zero")
struct FNZ {
  int operator()(int a, int b) const { return a != 0 ? a : b; }
};
struct Rec {
  int key;
  int seq;  // position in the input: observes stability
};
struct Less {
  bool operator()(const Rec& a, const Rec& b) const { return a.key < b.key; }
};
struct IsKept {
  const int* flags;
  bool operator()(size_t i) const { return flags[i] != 0; }
};
}  // namespace verif
namespace manifold { namespace details {
template struct ScanBody<int, const int*, int*, verif::FNZ>;
template void ScanBody<int, const int*, int*, verif::FNZ>::operator()<tbb::pre_scan_tag>(const tbb::blocked_range<size_t>&, tbb::pre_scan_tag);
template void ScanBody<int, const int*, int*, verif::FNZ>::operator()<tbb::final_scan_tag>(const tbb::blocked_range<size_t>&, tbb::final_scan_tag);
template struct CopyIfScanBody<const int*, int*, verif::IsKept>;
template void CopyIfScanBody<const int*, int*, verif::IsKept>::operator()<tbb::pre_scan_tag>(const tbb::blocked_range<size_t>&, tbb::pre_scan_tag);
template void CopyIfScanBody<const int*, int*, verif::IsKept>::operator()<tbb::final_scan_tag>(const tbb::blocked_range<size_t>&, tbb::final_scan_tag);
template void mergeRec<verif::Rec*, verif::Rec*, verif::Less>(verif::Rec*, verif::Rec*, size_t, size_t, size_t, size_t, size_t, verif::Less);
}}
