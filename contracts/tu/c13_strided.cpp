// forces every member of StridedRange<double*> (and of its iterator) to be instantiated; harness-side only
#include "/repo/src/iters.h"
template struct manifold::StridedRange<double*>;
