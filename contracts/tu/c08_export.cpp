// forces the MeshGL64 instantiation of the exporter
#include "/repo/src/impl.h"
template manifold::MeshGLP<double, uint64_t> manifold::GetMeshGLImpl<double, uint64_t>(const manifold::Manifold::Impl&, int);
