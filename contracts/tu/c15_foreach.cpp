// forces the ctx-aware sequential for_each of parallel.h for a plain int* range and an opaque visitor; harness-side only
#include "/repo/src/parallel.h"
namespace verif {
struct Visit {
  void operator()(int& x) const;   // never defined: every call is a recording stub in the lowered code
};
}  // namespace verif
template void manifold::for_each<int*, verif::Visit>(manifold::ExecutionPolicy, int*, int*,
                                                     manifold::ExecutionContext::Impl*, verif::Visit);
