// forces the two instantiations of the MeshGL import constructor (3-line TU kept in /verif, DESIGN section 2)
#include "/repo/src/impl.h"
template manifold::Manifold::Impl::Impl(const manifold::MeshGLP<double, uint64_t>&, manifold::ExecutionContext::Impl*);
template manifold::Manifold::Impl::Impl(const manifold::MeshGLP<float, uint32_t>&, manifold::ExecutionContext::Impl*);
