// Box / Rect wrappers of the C binding with the conversion functions, in one TU
#include "/repo/bindings/c/conv.cpp"
#include "/repo/bindings/c/box.cpp"
#include "/repo/bindings/c/rect.cpp"
