// conv.cpp (to_c / from_c reinterpret casts) and the wrapper file in one TU, so the casts are lowered, not stubbed
#include "/repo/bindings/c/conv.cpp"
#include "/repo/bindings/c/manifoldc.cpp"
#include "/repo/bindings/c/cross.cpp"
