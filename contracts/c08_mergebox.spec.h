/* C08: "(as does Merge() when they are stripped from a mesh that was manifold)" -- Merge()'s weld tolerance is
 * eps * bBox.Scale(); the box must be the box of the vertex POSITIONS.  vertProperties is a row-major matrix with
 * mesh.numProp columns whose first three columns are x, y, z: coordinate c of all vertices is the strided view
 * starting at element c with step numProp, and the three views feed bBox.min/max[c] in order c = 0, 1, 2. */
#ifdef SPEC_CONTRACTS
long ghost_sr_calls, ghost_sr_off[3], ghost_sr_stride[3]; _Bool ghost_sr_obj_ok[3], ghost_sr_end_ok[3];
float *ghost_vp_base; unsigned long ghost_vp_size;
struct StridedRange_floatP stub_StridedRange(float *b, float *e, unsigned long stride);
struct std_pair_double_double stub_reduce(void);
#endif
#ifdef SPEC_HARNESS
struct StridedRange_floatP stub_StridedRange(float *b, float *e, unsigned long stride) {
  struct StridedRange_floatP r;
  if (ghost_sr_calls < 3) {
    ghost_sr_obj_ok[ghost_sr_calls] = __CPROVER_same_object(b, ghost_vp_base);
    ghost_sr_off[ghost_sr_calls] = (long)(__CPROVER_POINTER_OFFSET(b) / sizeof(float));
    ghost_sr_end_ok[ghost_sr_calls] = __CPROVER_same_object(e, ghost_vp_base) && __CPROVER_POINTER_OFFSET(e) == ghost_vp_size * sizeof(float);
    ghost_sr_stride[ghost_sr_calls] = (long)stride;
  }
  ghost_sr_calls++;
  return r;
}
struct std_pair_double_double stub_reduce(void) { struct std_pair_double_double r; return r; }
void h_mergebox(void) {
  struct MeshGLP_float_unsigned_int mesh; struct Vec_float_0 vp; struct Box bBox;
  unsigned long n = nondet_ulong();
  __CPROVER_assume(n >= 3 && n <= 1000000000ul && mesh.numProp >= 3);
  vp._base0.size_ = n; vp._base0.ptr_ = malloc(vp._base0.size_ * sizeof(float)); __CPROVER_assume(vp._base0.ptr_ != 0);
  ghost_vp_base = vp._base0.ptr_; ghost_vp_size = n; ghost_sr_calls = 0;
  HARNESS_END;
  (void)Merge32_box(vp, bBox, &mesh);
  __CPROVER_assert(ghost_sr_calls == 3, "one strided view per coordinate");
  for (int c = 0; c < 3; ++c) {
    __CPROVER_assert(ghost_sr_obj_ok[c] && ghost_sr_off[c] == c && ghost_sr_end_ok[c], "coordinate c is read from column c of the whole vertex-property matrix");
    __CPROVER_assert(ghost_sr_stride[c] == (long)mesh.numProp, "with the matrix's own row width numProp as stride (positions only, no property channel enters the box)");
  }
}
#endif
