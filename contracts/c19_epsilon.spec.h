/* C19: "SetTolerance/Simplify wrappers; SetEpsilon floor": simplification works at tolerance_, which must never drop
 * below the rounding-error scale epsilon_ of the coordinates. */
#ifdef SPEC_CONTRACTS
double ghost_scale;
double stub_Scale(void);
#endif
#ifdef SPEC_HARNESS
double stub_Scale(void) { return ghost_scale; }
static void one_scale(double scale) {
  struct Manifold_Impl impl; double minEps = nondet_double(); _Bool single = nondet_bool();
  ghost_scale = scale;
  __CPROVER_assume(minEps == minEps && impl.tolerance_ == impl.tolerance_);
  double tol0 = impl.tolerance_;
  Impl_SetEpsilon(&impl, minEps, single);
  double e = impl.epsilon_, t = impl.tolerance_;
  double ps = 1e-12 * scale;                          /* kPrecision * scale: a constant in each instance */
  double fs = 1.1920928955078125e-07 * scale;         /* float epsilon * scale */
  double want = minEps > ps ? minEps : ps;
  _Bool fin = want - want == 0;                       /* finite: inf - inf is NaN */
  __CPROVER_assert(IMPLIES(fin, e == want), "epsilon is max(minEpsilon, kPrecision * scale) when that is finite");
  __CPROVER_assert(IMPLIES(!fin, e == -1), "epsilon is -1 (unset) when the scale is not finite");
  __CPROVER_assert(t >= tol0, "the tolerance is never lowered");
  __CPROVER_assert(t >= e, "the tolerance is never below epsilon");
  __CPROVER_assert(IMPLIES(single, t >= fs), "with single-precision input the tolerance is at least float-epsilon * scale");
  __CPROVER_assert(t == tol0 || t == e || (single && t == fs), "and it is not inflated beyond the largest of those");
}
void h_seteps(void) {
  HARNESS_END;
  /* the two IEEE products by a symbolic scale did not get through any SAT back end in 10 minutes; the scale is one of
   * these constants (minEpsilon, the old tolerance and useSingle stay arbitrary) */
  one_scale(0.0); one_scale(2.5); one_scale(1e15); one_scale(__builtin_inf());
}
#endif
