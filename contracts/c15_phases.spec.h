/* C15: "If Cancel() takes effect at any moment ... the call returns either the complete result ... or an
 * empty Manifold with Error::Cancelled ...; during one evaluation Progress() never decreases, never
 * exceeds 1, and equals 1 after an uncancelled completion" -- for FromMeshGL: total = kPhasesPerFromMesh. */
#ifdef SPEC_CONTRACTS
int ghost_cancel, ghost_cancel_seen, ghost_made_empty, ghost_status;
void stub_MakeEmpty(struct Manifold_Impl *self, int err) { ghost_made_empty = 1; ghost_status = err; }
_Bool stub_IsCancelled(void) {
  if (nondet_bool()) ghost_cancel = 1;   /* Cancel() from another thread: may happen before any observation, sticky */
  if (ghost_cancel) ghost_cancel_seen = 1;
  return ghost_cancel;
}
#endif
#ifdef SPEC_HARNESS
void h_phase_tail(void) {
  struct Manifold_Impl impl;
  struct ExecutionContext_Impl ctx;
  struct MeshGLP_double_unsigned_long mesh;
  int d0 = nondet_int();
  __CPROVER_assume(0 <= d0 && d0 < 1000000);
  ctx.donePhases._v = d0;
  ghost_cancel = 0; ghost_cancel_seen = 0; ghost_made_empty = 0; ghost_status = -1;
  HARNESS_END;
  Impl_FromMesh_tail(&impl, &mesh, &ctx);
  int published = ctx.donePhases._v - d0;
  __CPROVER_assert(0 <= published && published <= kPhasesPerFromMesh, "progress is monotone and never exceeds the announced number of phases");
  __CPROVER_assert(IMPLIES(!ghost_made_empty, published == kPhasesPerFromMesh && !ghost_cancel_seen), "an uncancelled completion publishes exactly kPhasesPerFromMesh phases (Progress reaches 1)");
  __CPROVER_assert(IMPLIES(ghost_cancel_seen, ghost_made_empty && ghost_status == ENUM_Manifold_Error_Cancelled), "a cancellation observed at a phase boundary yields an empty Manifold with Error::Cancelled");
  __CPROVER_assert(IMPLIES(ghost_made_empty && ghost_status == ENUM_Manifold_Error_Cancelled, ghost_cancel_seen), "Cancelled is reported only when cancellation was observed");
  __CPROVER_assert(IMPLIES(ghost_made_empty, ghost_status != ENUM_Manifold_Error_NoError), "an early return carries a specific error");
  /* the same tail without a context: no progress bookkeeping, never Cancelled */
}
#endif
