/* C14: "...overlaps that leaf's box under the documented closed-interval test".
 * common.h documents DoesOverlap as "including equality". */
#ifdef SPEC_CONTRACTS
#define NONAN3(v) ((v).x == (v).x && (v).y == (v).y && (v).z == (v).z)
#define BOX_NONAN(b) (NONAN3((b).min) && NONAN3((b).max))
/* closed intervals [lo1,hi1] and [lo2,hi2] share a point */
#define IV_MEET(lo1, hi1, lo2, hi2) ((lo1) <= (hi2) && (lo2) <= (hi1))
#define BOX_MEET(a, b)                                            \
  (IV_MEET((a).min.x, (a).max.x, (b).min.x, (b).max.x) &&         \
   IV_MEET((a).min.y, (a).max.y, (b).min.y, (b).max.y) &&         \
   IV_MEET((a).min.z, (a).max.z, (b).min.z, (b).max.z))

#define FNSPEC_Box_DoesOverlap                                                       \
  __CPROVER_requires(FRESH(self, 1) && FRESH(box, 1))                                \
  __CPROVER_ensures(__CPROVER_return_value == BOX_MEET(*self, *box))                 \
  /* any NaN coordinate that takes part makes the test false on that axis */        \
  __CPROVER_ensures(IMPLIES(self->min.x != self->min.x || box->max.x != box->max.x,  \
                            !__CPROVER_return_value))                                \
  __CPROVER_assigns()

/* "Does the given point project within the XY extent of this box (including equality)?" */
#define FNSPEC_Box_DoesOverlapPt                                                     \
  __CPROVER_requires(FRESH(self, 1))                                                 \
  __CPROVER_ensures(__CPROVER_return_value ==                                        \
                    (self->min.x <= p.x && p.x <= self->max.x && self->min.y <= p.y && p.y <= self->max.y)) \
  __CPROVER_assigns()

/* BuildInternalBoxes: parent box = Union(children): smallest box containing both
 * (for NaN-free operands): contains both, and every face touches one operand */
#define LE3(a, b) ((a).x <= (b).x && (a).y <= (b).y && (a).z <= (b).z)
#define FNSPEC_Box_Union                                                                     \
  __CPROVER_requires(FRESH(self, 1) && FRESH(box, 1) && BOX_NONAN(*self) && BOX_NONAN(*box)) \
  __CPROVER_ensures(LE3(__CPROVER_return_value.min, self->min) && LE3(__CPROVER_return_value.min, box->min) && \
                    LE3(self->max, __CPROVER_return_value.max) && LE3(box->max, __CPROVER_return_value.max))   \
  __CPROVER_ensures((__CPROVER_return_value.min.x == self->min.x || __CPROVER_return_value.min.x == box->min.x) && \
                    (__CPROVER_return_value.min.y == self->min.y || __CPROVER_return_value.min.y == box->min.y) && \
                    (__CPROVER_return_value.min.z == self->min.z || __CPROVER_return_value.min.z == box->min.z) && \
                    (__CPROVER_return_value.max.x == self->max.x || __CPROVER_return_value.max.x == box->max.x) && \
                    (__CPROVER_return_value.max.y == self->max.y || __CPROVER_return_value.max.y == box->max.y) && \
                    (__CPROVER_return_value.max.z == self->max.z || __CPROVER_return_value.max.z == box->max.z))   \
  __CPROVER_assigns()

/* Morton interleave: for a 10-bit value, bit i lands at bit 3i, all other bits zero */
extern unsigned ghost_k; /* arbitrary bit position: stands for "for all k" */
#define FNSPEC_SpreadBits3                                                            \
  __CPROVER_requires(v < 1024u && ghost_k < 32u)                                      \
  __CPROVER_ensures(((__CPROVER_return_value >> ghost_k) & 1u) ==                     \
                    ((ghost_k % 3u == 0u && ghost_k / 3u < 10u) ? ((v >> (ghost_k / 3u)) & 1u) : 0u)) \
  __CPROVER_assigns()
#endif

#ifdef SPEC_HARNESS
unsigned ghost_k;
void h_Box_DoesOverlap(void) { struct Box *a, *b; Box_DoesOverlap(a, b); }
void h_Box_DoesOverlapPt(void) { struct Box *a; struct linalg_vec_double_3 p; Box_DoesOverlapPt(a, p); }
void h_Box_Union(void) { struct Box *a, *b; Box_Union(a, b); }
void h_SpreadBits3(void) { unsigned v; ghost_k = nondet_uint(); /* arbitrary bit position */ SpreadBits3(v); }

/* node numbering: "even nodes are leaves, odd nodes are internal, root is 1" */
void h_node_algebra(void) {
  int k = nondet_int();
  __CPROVER_assume(0 <= k && k < (1 << 30));
  __CPROVER_assert(IsLeaf(Leaf2Node(k)) && !IsInternal(Leaf2Node(k)), "leaf nodes are even");
  __CPROVER_assert(IsInternal(Internal2Node(k)) && !IsLeaf(Internal2Node(k)), "internal nodes are odd");
  __CPROVER_assert(Node2Leaf(Leaf2Node(k)) == k, "Node2Leaf inverts Leaf2Node");
  __CPROVER_assert(Node2Internal(Internal2Node(k)) == k, "Node2Internal inverts Internal2Node");
  __CPROVER_assert(Internal2Node(0) == 1, "root is node 1");
  int n = nondet_int();
  __CPROVER_assume(0 <= n);
  __CPROVER_assert(IsLeaf(n) != IsInternal(n), "every node is exactly one of leaf/internal");
  __CPROVER_assert(!IsLeaf(n) || Leaf2Node(Node2Leaf(n)) == n, "Leaf2Node inverts Node2Leaf on leaves");
  __CPROVER_assert(!IsInternal(n) || Internal2Node(Node2Internal(n)) == n, "Internal2Node inverts Node2Internal");
  HARNESS_END;
}

/* 2D: tree2d.h QueryTwoDTree prunes with Rect::DoesOverlap and reports with Rect::Contains:
 * "Does this rectangle overlap the one given (including equality)?" */
void h_Rect(void) {
  struct Rect a, b;
  struct linalg_vec_double_2 p;
  _Bool o = Rect_DoesOverlap(&a, &b);
  __CPROVER_assert(o == (a.min.x <= b.max.x && b.min.x <= a.max.x && a.min.y <= b.max.y && b.min.y <= a.max.y), "closed-interval overlap on both axes");
  __CPROVER_assert(o == Rect_DoesOverlap(&b, &a), "overlap is symmetric");
  __CPROVER_assert(IMPLIES(a.max.x == b.min.x && a.min.x <= a.max.x && b.min.x <= b.max.x && a.min.y <= b.max.y && b.min.y <= a.max.y, o), "touching edges overlap (including equality)");
  __CPROVER_assert(Rect_ContainsPt(&a, &p) == (a.min.x <= p.x && p.x <= a.max.x && a.min.y <= p.y && p.y <= a.max.y), "closed containment of a point");
  /* pruning soundness: a point contained in b lies in every rectangle containing... : if a contains p and b is the degenerate rect at p, they overlap */
  b.min = p; b.max = p;
  __CPROVER_assert(IMPLIES(Rect_ContainsPt(&a, &p) , Rect_DoesOverlap(&a, &b)), "a rectangle overlaps every point it contains (no false pruning)");
  HARNESS_END;
}

/* supporting bit-vector lemma for the radix tree: for sorted distinct 64-bit keys a<b<c,
 * delta(a,c) == min(delta(a,b), delta(b,c)) and delta(a,b) != delta(b,c).  This is
 * what makes the binary searches of RangeEnd/FindSplit mean "the whole range" and
 * discharges RangeEnd's precondition delta(i,i+1) != delta(i,i-1). */
void h_key_lemma(void) {
  unsigned long a = nondet_ulong(), b = nondet_ulong(), c = nondet_ulong();
  __CPROVER_assume(a < b && b < c);
  int dab = __builtin_clzll(a ^ b), dbc = __builtin_clzll(b ^ c), dac = __builtin_clzll(a ^ c);
  __CPROVER_assert(dac == (dab < dbc ? dab : dbc), "delta(a,c) == min(delta(a,b), delta(b,c))");
  __CPROVER_assert(dab != dbc, "adjacent deltas differ");
  HARNESS_END;
}
#endif
