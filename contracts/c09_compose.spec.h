/* C09: "a non-NoError Status survives every subsequent operation that consumes the object" and "non-finite
 * input ... never reaches SortGeometry" -- for the disjoint-union fast path CsgLeafNode::Compose. */
#ifdef SPEC_CONTRACTS
struct Manifold_Impl; struct CsgLeafNode;
struct CsgLeafNode* stub_ImplToLeaf(struct Manifold_Impl* impl);
#endif
#ifdef SPEC_HARNESS
#ifndef NN
#define NN 4
#endif
static struct CsgLeafNode leaf_out;
static int leaf_made; static int leaf_status; static _Bool leaf_after_sort;
struct CsgLeafNode* stub_ImplToLeaf(struct Manifold_Impl* impl) {
  leaf_made++; leaf_status = impl->status_; leaf_after_sort = ghost_rec_SortGeometry_calls > 0; return &leaf_out;
}
void h_compose(void) {
  struct Manifold_Impl impls[NN]; struct CsgLeafNode leaves[NN]; struct CsgLeafNode* ptrs[NN];
  for (int i = 0; i < NN; i++) { leaves[i].pImpl_ = &impls[i]; ptrs[i] = &leaves[i]; }
  unsigned long n = nondet_ulong(); __CPROVER_assume(n >= 1 && n <= NN);
  struct std_vector_std_shared_ptr_CsgLeafNode nodes = { ptrs, n, n };
  unsigned long k = nondet_ulong(); __CPROVER_assume(k < n);      /* ghost: any operand */
  _Bool any_err = 0, any_nonfinite = 0;
  for (int i = 0; i < NN; i++) if ((unsigned long)i < n) {
    if (impls[i].status_ != 0) any_err = 1;
    if (!la_all_isfinite_linalg_mat_double_3_4(leaves[i].transform_)) any_nonfinite = 1;
  }
  HARNESS_END;
  SATISFIABLE(n >= 2 && impls[0].status_ != 0 && impls[n - 1].status_ == 0);
  ghost_rec_SortGeometry_calls = 0; leaf_made = 0;
  (void)Compose_skel(&nodes);
  __CPROVER_assert(leaf_made == 1, "Compose returns exactly one leaf made by ImplToLeaf");
  __CPROVER_assert(IMPLIES(impls[k].status_ != 0, leaf_status != 0), "an operand with a non-NoError status makes the composed leaf carry an error, wherever it stands among the operands");
  __CPROVER_assert(IMPLIES(!la_all_isfinite_linalg_mat_double_3_4(leaves[k].transform_), leaf_status != 0), "an operand whose pending transform is not finite makes the composed leaf carry an error");
  _Bool is_operand_status = 0;
  for (int i = 0; i < NN; i++) if ((unsigned long)i < n && impls[i].status_ != 0 && impls[i].status_ == leaf_status) is_operand_status = 1;
  __CPROVER_assert(IMPLIES(any_err && !any_nonfinite, is_operand_status), "the error reported is the status of one of the errored operands, not a different one");
  __CPROVER_assert(IMPLIES(any_err || any_nonfinite, ghost_rec_SortGeometry_calls == 0), "SortGeometry is never reached with an errored operand or a non-finite pending transform");
  __CPROVER_assert(IMPLIES(!any_err && !any_nonfinite, ghost_rec_SortGeometry_calls == 1 && leaf_after_sort && leaf_status == 0), "error-free operands are combined, sorted once and returned without an error");
}
#endif
