#include "halfedge_spec.h"
#ifdef SPEC_CONTRACTS
int ghost_last_f, ghost_last_b, ghost_s0, ghost_e0, ghost_copies;
/* C01 "every directed edge ... matched by exactly one opposite edge": the pair emitted by every
 * iteration is mutually paired with swapped endpoints, and copy i uses copy i of BOTH end vertices
 * (DuplicateVerts lays the |inclusion| copies of a vertex out consecutively) */
#define LOOPSPEC_DuplicateHalfedges_call_0                                                                  \
  __CPROVER_assigns(i, startVert, endVert, __CPROVER_object_whole(self->halfedgesR.ptr_),                   \
                    __CPROVER_object_whole(self->halfedgeRef.ptr_), __CPROVER_object_whole(self->facePtr.ptr_)) \
  __CPROVER_loop_invariant(0 <= i && i <= (inclusion < 0 ? -inclusion : inclusion) &&                       \
      startVert == __CPROVER_loop_entry(startVert) + i && endVert == __CPROVER_loop_entry(endVert) + i &&   \
      self->facePtr.ptr_[newFace] == __CPROVER_loop_entry(self->facePtr.ptr_[newFace]) + i &&               \
      self->facePtr.ptr_[faceRight] == __CPROVER_loop_entry(self->facePtr.ptr_[faceRight]) + i &&           \
      (i == 0 || (                                                                                          \
        self->halfedgesR.ptr_[self->facePtr.ptr_[newFace] - 1].startVert == startVert - 1 &&                \
        self->halfedgesR.ptr_[self->facePtr.ptr_[newFace] - 1].endVert == endVert - 1 &&                    \
        self->halfedgesR.ptr_[self->facePtr.ptr_[newFace] - 1].pairedHalfedge == self->facePtr.ptr_[faceRight] - 1 && \
        self->halfedgesR.ptr_[self->facePtr.ptr_[faceRight] - 1].startVert == endVert - 1 &&                \
        self->halfedgesR.ptr_[self->facePtr.ptr_[faceRight] - 1].endVert == startVert - 1 &&                \
        self->halfedgesR.ptr_[self->facePtr.ptr_[faceRight] - 1].pairedHalfedge == self->facePtr.ptr_[newFace] - 1))) \
  __CPROVER_decreases((inclusion < 0 ? -inclusion : inclusion) - i)
#endif
#ifdef SPEC_HARNESS
#define NMAXV (1ul << 28)
void h_DuplicateHalfedges(void) {
  struct DuplicateHalfedges s;
  struct Halfedges hp;
  unsigned long nP = nondet_ulong(), nVP = nondet_ulong(), nR = nondet_ulong(), nFP = nondet_ulong(), nFR = nondet_ulong();
  __CPROVER_assume(nFP >= 1 && nFP <= NMAXV && nP == 3 * nFP && nVP >= 1 && nVP <= NMAXV && nR <= NMAXV && nFR >= 2 && nFR <= NMAXV);
  ALLOC_HALFEDGES(hp, nP);
  s.halfedgesP = &hp;
  ALLOC_VIEW(s.halfedgesR, struct Halfedge, nR);
  ALLOC_VIEW(s.halfedgeRef, struct TriRef, nR);
  ALLOC_VIEW(s.facePtr, int, nFR);
  ALLOC_VIEW(s.wholeHalfedgeP, char, nP);
  ALLOC_VIEW(s.i03, int, nVP);
  ALLOC_VIEW(s.vP2R, int, nVP);
  ALLOC_VIEW(s.faceP2R, int, nFP);
  s.forward = nondet_bool();
  int idx = nondet_int();
  __CPROVER_assume(0 <= idx && (unsigned long)idx < nP);
  /* P is a valid halfedge mesh at idx (C01 invariant of the operand) */
  int sv = HSTART(&hp, idx), ev = HSTART(&hp, NEXT3(idx)), pr = HPAIR(&hp, idx);
  __CPROVER_assume(0 <= sv && (unsigned long)sv < nVP && 0 <= ev && (unsigned long)ev < nVP && 0 <= pr && (unsigned long)pr < nP);
  int inc = s.i03.ptr_[sv < ev ? sv : ev];
  __CPROVER_assume(-4 <= inc && inc <= 4);
  int nf = s.faceP2R.ptr_[idx / 3], fr = s.faceP2R.ptr_[pr / 3];
  /* slot pointers: SizeOutput reserved room for every whole edge in both output faces; left/right output faces differ */
  __CPROVER_assume(0 <= nf && (unsigned long)nf < nFR && 0 <= fr && (unsigned long)fr < nFR && nf != fr);
  __CPROVER_assume(0 <= s.facePtr.ptr_[nf] && (unsigned long)s.facePtr.ptr_[nf] + 4 <= nR && 0 <= s.facePtr.ptr_[fr] && (unsigned long)s.facePtr.ptr_[fr] + 4 <= nR);
  __CPROVER_assume((s.facePtr.ptr_[nf] + 4 <= s.facePtr.ptr_[fr]) || (s.facePtr.ptr_[fr] + 4 <= s.facePtr.ptr_[nf])); /* faces own disjoint slot ranges */
  __CPROVER_assume(0 <= s.vP2R.ptr_[sv] && s.vP2R.ptr_[sv] < (1 << 29) && 0 <= s.vP2R.ptr_[ev] && s.vP2R.ptr_[ev] < (1 << 29));
  HARNESS_END;
  DuplicateHalfedges_call(&s, idx);
}
#endif
