/* C01: "a Manifold either reports a non-NoError Status and is empty, or ..." -- every error path ends in
 * Impl::MakeEmpty(status), and the skeleton units of this directory ASSUME "error status => empty".  This unit
 * discharges that assumption at its source: after MakeEmpty the object is empty in every count the public API
 * derives from it (NumVert, NumEdge/NumTri from the halfedge arrays, NumProp, NumPropVert, the relation table). */
#include "halfedge_spec.h"
#ifdef SPEC_CONTRACTS
void stub_copy(void);
#endif
#ifdef SPEC_HARNESS
void stub_copy(void) {}
void h_makeempty(void) {
  struct Manifold_Impl impl;
  unsigned long nh = nondet_ulong(), nv = nondet_ulong(), np = nondet_ulong();
  __CPROVER_assume(nh <= 1000000000ul && nv <= 100000000ul && np <= 1000000000ul);
  ALLOC_HALFEDGES(impl.halfedge_, nh);       /* possibly shared with another Impl: MakeEmpty must not write through a shared buffer */
  ALLOC_VIEW(impl.vertPos_._base0, struct linalg_vec_double_3, nv); impl.vertPos_.capacity_ = nv;
  ALLOC_VIEW(impl.properties_._base0, double, np); impl.properties_.capacity_ = np;
  ALLOC_VIEW(impl.vertNormal_._base0, struct linalg_vec_double_3, nv); impl.vertNormal_.capacity_ = nv;
  ALLOC_VIEW(impl.faceNormal_._base0, struct linalg_vec_double_3, nv); impl.faceNormal_.capacity_ = nv;
  ALLOC_VIEW(impl.halfedgeTangent_._base0, struct linalg_vec_double_4, nh); impl.halfedgeTangent_.capacity_ = nh;
  int status = nondet_int();
  HARNESS_END;
  Impl_MakeEmpty(&impl, status);
  __CPROVER_assert(impl.status_ == status, "the object carries the given status");
  __CPROVER_assert(impl.vertPos_._base0.size_ == 0, "no vertices (NumVert() == 0)");
  __CPROVER_assert(impl.halfedge_.start_._base0.size_ == 0 && impl.halfedge_.paired_._base0.size_ == 0 && impl.halfedge_.propVert_._base0.size_ == 0, "no halfedges (NumEdge() == NumTri() == 0)");
  __CPROVER_assert(impl.vertNormal_._base0.size_ == 0 && impl.faceNormal_._base0.size_ == 0 && impl.halfedgeTangent_._base0.size_ == 0, "no normals or tangents");
  __CPROVER_assert(impl.meshRelation_.triRef._base0.size_ == 0, "no triangle references");
  __CPROVER_assert(impl.properties_._base0.size_ == 0 && impl.numProp_ == 0, "no property vertices and no property channels (NumPropVert() == NumProp() == 0): an empty object reports nothing left over from what it was");
}
#endif
