/* C20: "Every function of the C FFI returns the value ... that the C++ call it names returns for the same
 * arguments ... objects are constructed in exactly the caller-supplied storage" and memory safety of handles:
 * reading an element out of a vector handle is a pure read in C++ (`vec[idx]` copy), so the C image must leave
 * the vector element usable: it may be copied, never moved from. */
#ifdef SPEC_CONTRACTS
void *ghost_placement_mem; int ghost_placement_count;
static inline void *placement_hook(void *p) { ghost_placement_mem = p; ghost_placement_count++; return p; }
#undef PLACEMENT_NEW_HOOK
#define PLACEMENT_NEW_HOOK(p) placement_hook(p)
void *ghost_moved_from; int ghost_moved_count;
#undef MOVED_FROM_HOOK
#define MOVED_FROM_HOOK(p) (ghost_moved_from = (p), ghost_moved_count++)
#endif
#ifdef SPEC_HARNESS
#define BEGIN_CASE() do { ghost_placement_count = 0; ghost_placement_mem = 0; ghost_moved_count = 0; ghost_moved_from = 0; } while (0)
#define IN_PLACE(ret, mem) __CPROVER_assert((void *)(ret) == (void *)(mem) && ghost_placement_mem == (void *)(mem) && ghost_placement_count == 1, \
                                            "the object is constructed exactly once, in the caller-supplied storage, and that storage is the returned handle")
#define NOT_MOVED() __CPROVER_assert(ghost_moved_count == 0, "the source object is copied, never moved from (it stays usable through its own handle)")
void h_lifecycle(void) {
  char mem[512];
  unsigned long n = nondet_ulong(), idx = nondet_ulong();
  __CPROVER_assume(n >= 1 && n <= 1000000 && idx < n);
  HARNESS_END;
  { BEGIN_CASE();
    struct std_vector_Manifold v; v._size = n; v._cap = n; v._data = malloc(v._size * sizeof(struct Manifold)); __CPROVER_assume(v._data != 0);
    struct Manifold before = v._data[idx];
    void *r = manifold_manifold_vec_get(mem, (struct ManifoldManifoldVec *)&v, idx);
    IN_PLACE(r, mem); NOT_MOVED();
    __CPROVER_assert(((struct Manifold *)mem)->pNode_ == before.pNode_, "vec_get returns (a copy of) element idx");
    __CPROVER_assert(v._data[idx].pNode_ == before.pNode_ && v._size == n, "vec_get leaves the vector unchanged");
  }
  { BEGIN_CASE();
    struct std_vector_CrossSection v; v._size = n; v._cap = n; v._data = malloc(v._size * sizeof(struct CrossSection)); __CPROVER_assume(v._data != 0);
    struct CrossSection before = v._data[idx];
    void *r = manifold_cross_section_vec_get(mem, (struct ManifoldCrossSectionVec *)&v, idx);
    IN_PLACE(r, mem); NOT_MOVED();
    __CPROVER_assert(((struct CrossSection *)mem)->paths_ == before.paths_, "cross_section_vec_get returns (a copy of) element idx");
    __CPROVER_assert(v._data[idx].paths_ == before.paths_ && v._size == n, "cross_section_vec_get leaves the vector unchanged");
  }
  { BEGIN_CASE(); ghost_rec_Manifold_op_assign__Manifold_calls = 0;
    struct std_vector_Manifold v; v._size = n; v._cap = n; v._data = malloc(v._size * sizeof(struct Manifold)); __CPROVER_assume(v._data != 0);
    struct ManifoldManifold *m = (struct ManifoldManifold *)nondet_ulong();
    manifold_manifold_vec_set((struct ManifoldManifoldVec *)&v, idx, m);
    __CPROVER_assert(ghost_rec_Manifold_op_assign__Manifold_calls == 1 && ghost_rec_Manifold_op_assign__Manifold_self == (void *)&v._data[idx] &&
                     ghost_rec_Manifold_op_assign__Manifold_other == (void *)m, "vec_set assigns *m to element idx (copy assignment)");
    NOT_MOVED();
  }
  { struct std_vector_Manifold v; v._size = n; v._cap = nondet_ulong(); v._data = 0;
    __CPROVER_assert(manifold_manifold_vec_length((struct ManifoldManifoldVec *)&v) == n, "vec_length is the number of elements");
    struct std_vector_CrossSection w; w._size = n; w._cap = nondet_ulong(); w._data = 0;
    __CPROVER_assert(manifold_cross_section_vec_length((struct ManifoldCrossSectionVec *)&w) == n, "cross_section_vec_length is the number of elements");
  }
  { BEGIN_CASE();
    struct std_vector_Manifold v; v._size = n; v._cap = nondet_ulong(); __CPROVER_assume(v._cap >= n + 1 && v._cap <= 2000000);   /* capacity left: the vector model loses contents on reallocation */
    v._data = malloc(v._cap * sizeof(struct Manifold)); __CPROVER_assume(v._data != 0);
    struct Manifold src; struct Manifold before = src;
    manifold_manifold_vec_push_back((struct ManifoldManifoldVec *)&v, (struct ManifoldManifold *)&src);
    NOT_MOVED();
    __CPROVER_assert(v._size == n + 1 && v._data[n].pNode_ == before.pNode_ && src.pNode_ == before.pNode_, "vec_push_back appends a copy of *m; the caller's object is unchanged");
  }
  { BEGIN_CASE();
    struct std_vector_CrossSection v; v._size = n; v._cap = nondet_ulong(); __CPROVER_assume(v._cap >= n + 1 && v._cap <= 2000000);   /* capacity left: the vector model loses contents on reallocation */
    v._data = malloc(v._cap * sizeof(struct CrossSection)); __CPROVER_assume(v._data != 0);
    struct CrossSection src; struct CrossSection before = src;
    manifold_cross_section_vec_push_back((struct ManifoldCrossSectionVec *)&v, (struct ManifoldCrossSection *)&src);
    NOT_MOVED();
    __CPROVER_assert(v._size == n + 1 && v._data[n].paths_ == before.paths_ && src.paths_ == before.paths_, "cross_section_vec_push_back appends a copy of *cs; the caller's object is unchanged");
  }
  { BEGIN_CASE();
    struct Manifold src; struct Manifold before = src;
    void *r = manifold_copy(mem, (struct ManifoldManifold *)&src);
    IN_PLACE(r, mem); NOT_MOVED();
    __CPROVER_assert(((struct Manifold *)mem)->pNode_ == before.pNode_ && src.pNode_ == before.pNode_, "manifold_copy copies its argument and leaves it unchanged");
  }
  { BEGIN_CASE();
    struct CrossSection src; struct CrossSection before = src;
    void *r = manifold_cross_section_copy(mem, (struct ManifoldCrossSection *)&src);
    IN_PLACE(r, mem); NOT_MOVED();
    __CPROVER_assert(((struct CrossSection *)mem)->paths_ == before.paths_ && src.paths_ == before.paths_, "cross_section_copy copies its argument and leaves it unchanged");
  }
  { BEGIN_CASE(); ghost_rec_MeshGLP_float_unsigned_int_Merge_calls = 0;
    struct MeshGLP_float_unsigned_int src;
    void *r = manifold_meshgl_merge(mem, (struct ManifoldMeshGL *)&src);
    IN_PLACE(r, mem); NOT_MOVED();
    __CPROVER_assert(ghost_rec_MeshGLP_float_unsigned_int_Merge_calls == 1 && ghost_rec_MeshGLP_float_unsigned_int_Merge_self == (void *)mem,
                     "meshgl_merge merges the COPY constructed in mem; its argument is not the receiver");
  }
  { BEGIN_CASE(); ghost_rec_MeshGLP_double_unsigned_long_Merge_calls = 0;
    struct MeshGLP_double_unsigned_long src;
    void *r = manifold_meshgl64_merge(mem, (struct ManifoldMeshGL64 *)&src);
    IN_PLACE(r, mem); NOT_MOVED();
    __CPROVER_assert(ghost_rec_MeshGLP_double_unsigned_long_Merge_calls == 1 && ghost_rec_MeshGLP_double_unsigned_long_Merge_self == (void *)mem,
                     "meshgl64_merge merges the COPY constructed in mem; its argument is not the receiver");
  }
}
#endif
