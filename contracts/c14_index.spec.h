/* C14, bounded stand-in: "A collision query against the bounding-volume hierarchy reports a
 * (query, leaf) pair if and only if the query box ... overlaps that leaf's box under the
 * documented closed-interval test, each pair once, for any leaf set including many identical
 * Morton codes ..." -- exhaustively for NLEAF leaves. */
#ifdef SPEC_HARNESS
#ifndef NLEAF
#define NLEAF 3
#endif
#define FIN(v) ((v) == (v) && (v) != __builtin_inf() && (v) != -__builtin_inf())
#define FIN3(v) (FIN((v).x) && FIN((v).y) && FIN((v).z))
#define NN3(v) ((v).x == (v).x && (v).y == (v).y && (v).z == (v).z)
#define MEET(a, b) ((a).min.x <= (b).max.x && (a).min.y <= (b).max.y && (a).min.z <= (b).max.z && \
                    (a).max.x >= (b).min.x && (a).max.y >= (b).min.y && (a).max.z >= (b).min.z)
void h_index(void) {
  unsigned int morton[NLEAF];
  struct Box leaf[NLEAF];
  struct Box nodeBox[2 * NLEAF - 1];
  int nodeParent[2 * NLEAF - 1];
  struct std_pair_int_int children[NLEAF - 1];
  int counter[NLEAF - 1];
  for (int i = 0; i < NLEAF; ++i) {
    __CPROVER_assume(FIN3(leaf[i].min) && FIN3(leaf[i].max));
    if (i > 0) __CPROVER_assume(morton[i - 1] <= morton[i]); /* Collider's contract: leaves sorted by Morton code */
  }
  for (int i = 0; i < 2 * NLEAF - 1; ++i) nodeParent[i] = -1;
  for (int i = 0; i < NLEAF - 1; ++i) { children[i].first = -1; children[i].second = -1; counter[i] = 0; }
  /* Collider::Collider */
  struct CreateRadixTree crt;
  crt.nodeParent_.ptr_ = nodeParent; crt.nodeParent_.size_ = 2 * NLEAF - 1;
  crt.internalChildren_.ptr_ = children; crt.internalChildren_.size_ = NLEAF - 1;
  crt.leafMorton_.ptr_ = morton; crt.leafMorton_.size_ = NLEAF;
  for (int k = 0; k < NLEAF - 1; ++k) CreateRadixTree_call(&crt, k);
  /* the tree is a binary tree over the leaves: every node except the root has a parent */
  for (int k = 0; k < 2 * NLEAF - 1; ++k)
    __CPROVER_assert(k == 1 ? 1 : (nodeParent[k] >= 1 && nodeParent[k] < 2 * NLEAF - 1 && (nodeParent[k] & 1) == 1), "every non-root node has an internal parent");
  /* Collider::UpdateBoxes */
  for (int i = 0; i < NLEAF; ++i) nodeBox[2 * i] = leaf[i];
  struct BuildInternalBoxes bib;
  bib.nodeBBox_.ptr_ = nodeBox; bib.nodeBBox_.size_ = 2 * NLEAF - 1;
  bib.counter_.ptr_ = counter; bib.counter_.size_ = NLEAF - 1;
  bib.nodeParent_ = crt.nodeParent_;
  bib.internalChildren_ = crt.internalChildren_;
  for (int i = 0; i < NLEAF; ++i) BuildInternalBoxes_call(&bib, i);
  /* one arbitrary query */
  struct Box q;
  __CPROVER_assume(NN3(q.min) && NN3(q.max));
  int out[2 * (NLEAF + 2)];
  struct verif_PairSink sink; sink.out = out; sink.cap = NLEAF + 2; sink.n = 0;
  struct verif_BoxAt src; src.b = &q;
  struct SimpleRecorder_verif_PairSink rec; rec.f = &sink;
  struct FindCollision_verif_BoxAt_0_SimpleRecorder_verif_PairSink fc;
  fc.f = &src; fc.recorder = &rec;
  fc.nodeBBox_.ptr_ = nodeBox; fc.nodeBBox_.size_ = 2 * NLEAF - 1;
  fc.internalChildren_ = crt.internalChildren_;
  HARNESS_END;
  FindCollision_call(&fc, 0);
  __CPROVER_assert(sink.n <= NLEAF, "no more pairs than leaves");
  for (int l = 0; l < NLEAF; ++l) {
    int times = 0;
    for (int k = 0; k < NLEAF + 2; ++k)
      if (k < sink.n && out[2 * k] == 0 && out[2 * k + 1] == l) ++times;
    __CPROVER_assert(times == (MEET(q, leaf[l]) ? 1 : 0), "leaf reported exactly once iff its box overlaps the query (closed intervals)");
  }
}
#endif
