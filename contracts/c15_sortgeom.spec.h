/* C15 / sort.cpp: "Invariant: every ctx-passing parallel op is followed by IsCancelled to keep partial
 * output from feeding unconditional downstream consumers." */
#ifdef SPEC_CONTRACTS
int ghost_cancel, ghost_tainted, ghost_phases;
_Bool stub_IsCancelled(void) { if (nondet_bool()) ghost_cancel = 1; return ghost_cancel; }
void stub_noop(void) {}
void stub_ctx_phase(void) {
  __CPROVER_assert(!ghost_tainted, "a phase never consumes the partial output of an interrupted phase");
  ghost_phases++;
  if (stub_IsCancelled()) ghost_tainted = 1;
}
#endif
#ifdef SPEC_HARNESS
void h_SortGeometry(void) {
  struct Manifold_Impl impl;
  struct ExecutionContext_Impl ctx;
  impl.halfedge_.start_._base0.size_ = nondet_ulong();
  ghost_cancel = 0; ghost_tainted = 0; ghost_phases = 0;
  HARNESS_END;
  Impl_SortGeometry(&impl, &ctx);
  __CPROVER_assert(IMPLIES(ghost_tainted, ghost_cancel), "an early return after an interrupted phase leaves the cancellation observable to the caller's check");
  __CPROVER_assert(IMPLIES(!ghost_cancel && impl.halfedge_.start_._base0.size_ != 0, ghost_phases >= 3), "an uncancelled run executes every phase");
}
#endif
