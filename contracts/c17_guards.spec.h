/* C17: "invalid arguments give InvalidConstruction"; C09: "numeric argument ... either a usable result or an empty
 * Manifold carrying a specific Error ... an error is never silently turned into an empty-but-valid solid".
 * Documented domains (constructors.cpp): Cube -- no negative dimension, not all zero; Sphere -- radius > 0;
 * NaN and infinities are outside every domain. */
#ifdef SPEC_CONTRACTS
struct Manifold;
int ghost_invalid, ghost_fell;
struct Manifold stub_Invalid(void);
#undef REGION_FALLTHROUGH
#define REGION_FALLTHROUGH (ghost_fell = 1)
#endif
#ifdef SPEC_HARNESS
struct Manifold stub_Invalid(void) { struct Manifold m; ghost_invalid++; return m; }
#define FINITE(x) ((x) == (x) && (x) != INFINITY && (x) != -INFINITY)
void h_cube_guard(void) {
  struct linalg_vec_double_3 size; _Bool center = nondet_bool();
  ghost_invalid = 0;
  HARNESS_END;
  (void)M_Cube(size, center);
  _Bool valid = FINITE(size.x) && FINITE(size.y) && FINITE(size.z) && size.x >= 0 && size.y >= 0 && size.z >= 0 && !(size.x == 0 && size.y == 0 && size.z == 0);
  __CPROVER_assert(valid || ghost_invalid == 1, "Cube with a negative, all-zero, NaN or infinite size returns Invalid()");
  /* (sizes whose squares underflow to zero are treated as all-zero by length(size) == 0: not demanded here) */
  _Bool sizable = valid && (size.x >= 1e-100 || size.y >= 1e-100 || size.z >= 1e-100) && size.x <= 1e100 && size.y <= 1e100 && size.z <= 1e100;
  __CPROVER_assert(!sizable || ghost_invalid == 0, "Cube with a valid size of ordinary magnitude is built");
}
void h_sphere_guard(void) {
  double radius = nondet_double(); int seg = nondet_int();
  ghost_invalid = 0;
  HARNESS_END;
  (void)M_Sphere(radius, seg);
  _Bool valid = FINITE(radius) && radius > 0;
  __CPROVER_assert(valid || ghost_invalid == 1, "Sphere with a non-positive, NaN or infinite radius returns Invalid()");
  __CPROVER_assert(!valid || ghost_invalid == 0, "Sphere with a valid radius is built");
}
/* Cylinder: height > 0, radiusLow >= 0, and radiusHigh > 0 when radiusLow == 0 (cone with apex at the bottom);
 * radiusHigh may be 0 or, by the documented default, negative meaning "same as radiusLow" */
void h_cylinder_guard(void) {
  double h = nondet_double(), rl = nondet_double(), rh = nondet_double(); int seg = nondet_int(); _Bool center = nondet_bool();
  ghost_invalid = 0; ghost_fell = 0;
  HARNESS_END;
  (void)M_Cylinder(h, rl, rh, seg, center);
  _Bool valid = FINITE(h) && FINITE(rl) && FINITE(rh) && h > 0 && rl >= 0 && !(rl == 0 && rh <= 0);
  __CPROVER_assert(valid || ghost_invalid == 1, "Cylinder with non-positive height, negative radius, a degenerate cone, or any NaN / infinite argument returns Invalid()");
  __CPROVER_assert(!valid || ghost_invalid == 0, "Cylinder with valid arguments is built");
}
void h_extrude_guard(void) {
  struct std_vector_std_vector_linalg_vec_double_2 cs; cs._size = nondet_ulong(); cs._cap = cs._size; cs._data = 0;
  double h = nondet_double(), twist = nondet_double(); int div = nondet_int(); struct linalg_vec_double_2 st;
  ghost_invalid = 0; ghost_fell = 0;
  HARNESS_END;
  (void)M_Extrude(&cs, h, div, twist, st);
  _Bool valid = cs._size > 0 && FINITE(h) && h > 0 && div >= 0 && FINITE(twist) && FINITE(st.x) && FINITE(st.y);
  __CPROVER_assert(valid || ghost_invalid == 1, "Extrude of an empty cross-section, with non-positive height, a negative number of divisions, or with any NaN / infinite height, twist or top scale returns Invalid()");
  __CPROVER_assert(!valid || ghost_fell, "Extrude with valid arguments proceeds");
}
/* Revolve: the angle must be positive (angles above 360 are clamped to a full turn); NaN, -inf, 0 and negative angles
 * have no solid to describe (a negative sweep produced an inside-out mesh) */
void h_revolve_guard(void) {
  struct std_vector_std_vector_linalg_vec_double_2 cs; cs._size = nondet_ulong(); cs._cap = cs._size; cs._data = 0;
  double deg = nondet_double(); int seg = nondet_int();
  ghost_invalid = 0; ghost_fell = 0;
  HARNESS_END;
  (void)M_Revolve(&cs, seg, deg);
  __CPROVER_assert(deg > 0 || ghost_invalid == 1, "Revolve with a NaN, zero or negative angle returns Invalid()");
  __CPROVER_assert(!(deg > 0) || ghost_fell, "Revolve with a positive angle proceeds");
}
#endif
