/* C13: "lock-free containers equal their sequential spec" -- the sequential half of HashTableD (hashtable.h),
 * instantiated as in impl.cpp (HashTableD<uint32_t, hash64bit>), for every table size 2^k and every content:
 *  - every probe index stays inside the table (the mask arithmetic is the only bounds protection);
 *  - Insert never overwrites an occupied slot: first insert of a key wins, other keys' slots are untouched;
 *  - Insert claims at most one slot, only an open one, stores exactly (key, val) there and counts it in `used`;
 *  - operator[] returns the value slot of `key` or of the first open slot on its probe path, and writes nothing.
 * Universal statements are made at arbitrary ghost slots g1 != g2. Termination of the probe loops (a counting
 * argument over Full()) is NOT claimed. */
#ifdef SPEC_CONTRACTS
unsigned long ghost_g1, ghost_g2;
unsigned long old_k1, old_k2, old_used;
unsigned int old_v1, old_v2;
#define NSLOTS (self->keys_.size_)
#define USED (((struct std_atomic_unsigned_long*)self->used_)->_v)
#define LOOPSPEC_HT_Insert_0 \
  __CPROVER_assigns(idx, __CPROVER_object_whole(self->keys_.ptr_), __CPROVER_object_whole(self->values_.ptr_), USED) \
  __CPROVER_loop_invariant(idx < NSLOTS && \
      self->keys_.ptr_[ghost_g1] == old_k1 && self->values_.ptr_[ghost_g1] == old_v1 && \
      self->keys_.ptr_[ghost_g2] == old_k2 && self->values_.ptr_[ghost_g2] == old_v2 && USED == old_used)
#define LOOPSPEC_HT_lookup_0 \
  __CPROVER_assigns(idx) \
  __CPROVER_loop_invariant(idx < NSLOTS)
#endif
#ifdef SPEC_HARNESS
#define KOPEN 18446744073709551615ul
static void ht_setup(struct HashTableD_unsigned_int* self, struct std_atomic_unsigned_long* used) {
  unsigned lg = nondet_uint();
  __CPROVER_assume(lg <= 30);                      /* HashTable(size): 2^CeilLog2(size); Size() is an int */
  unsigned long n = 1ul << lg;
  self->keys_.size_ = n; self->keys_.ptr_ = malloc(self->keys_.size_ * sizeof(unsigned long));
  self->values_.size_ = n; self->values_.ptr_ = malloc(self->values_.size_ * sizeof(unsigned int));
  __CPROVER_assume(self->keys_.ptr_ != 0 && self->values_.ptr_ != 0);
  self->step_ = nondet_uint();
  self->used_ = (void*)used;
  used->_v = nondet_ulong();
  __CPROVER_assume(used->_v <= n);
  ghost_g1 = nondet_ulong(); ghost_g2 = nondet_ulong();
  __CPROVER_assume(ghost_g1 < n && ghost_g2 < n && ghost_g1 != ghost_g2);
  old_k1 = self->keys_.ptr_[ghost_g1]; old_k2 = self->keys_.ptr_[ghost_g2];
  old_v1 = self->values_.ptr_[ghost_g1]; old_v2 = self->values_.ptr_[ghost_g2];
  old_used = used->_v;
}
void h_insert(void) {
  struct HashTableD_unsigned_int t; struct std_atomic_unsigned_long used;
  struct HashTableD_unsigned_int* self = &t;
  ht_setup(self, &used);
  __CPROVER_assume(NSLOTS >= 2);                   /* two distinct ghost slots */
  unsigned long key = nondet_ulong();
  unsigned int val = nondet_uint();
  __CPROVER_assume(key != KOPEN);                  /* call sites insert mesh ids / grid indices, never the sentinel */
  HARNESS_END;
  SATISFIABLE(old_k1 == KOPEN && old_k2 == key);
  HT_Insert(self, key, &val);
  unsigned long k1 = self->keys_.ptr_[ghost_g1], k2 = self->keys_.ptr_[ghost_g2];
  unsigned int v1 = self->values_.ptr_[ghost_g1], v2 = self->values_.ptr_[ghost_g2];
  _Bool ch1 = !(k1 == old_k1 && v1 == old_v1), ch2 = !(k2 == old_k2 && v2 == old_v2);
  if (old_k1 != KOPEN) __CPROVER_assert(!ch1, "an occupied slot is never overwritten (first insert of a key wins, other keys untouched)");
  if (ch1) __CPROVER_assert(old_k1 == KOPEN && k1 == key && v1 == val && used._v == old_used + 1, "a claimed slot was open, now holds exactly (key, val), and is counted once");
  __CPROVER_assert(!(ch1 && ch2), "Insert changes at most one slot");
  __CPROVER_assert(used._v == old_used || used._v == old_used + 1, "used grows by at most one");
  if (used._v == old_used) __CPROVER_assert(!ch1, "no slot changes unless one is claimed and counted");
}
void h_lookup(void) {
  struct HashTableD_unsigned_int t; struct std_atomic_unsigned_long used;
  struct HashTableD_unsigned_int* self = &t;
  ht_setup(self, &used);
  unsigned long key = nondet_ulong();
  HARNESS_END;
  unsigned int* r = HT_lookup(self, key);
  __CPROVER_assert(__CPROVER_same_object(r, self->values_.ptr_), "operator[] returns a slot of the value array");
  unsigned long slot = (unsigned long)(r - self->values_.ptr_);
  __CPROVER_assert(slot < NSLOTS, "the returned slot is inside the table");
  __CPROVER_assert(self->keys_.ptr_[slot] == key || self->keys_.ptr_[slot] == KOPEN, "the returned slot holds the key, or is the open slot that ends its probe path");
  __CPROVER_assert(self->keys_.ptr_[ghost_g1] == old_k1 && self->values_.ptr_[ghost_g1] == old_v1 && used._v == old_used, "lookup writes nothing");
}
#endif
