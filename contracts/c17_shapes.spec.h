/* C17: "Cube, Tetrahedron ... return the solid described by their arguments" / "Impl(Shape) tables" (impl.cpp:93-141);
 * C01: "every directed edge occurs exactly once and is matched by exactly one opposite edge; no triangle repeats a
 * vertex; every index is in range".  The tables are read out of the constructor itself. */
#ifdef SPEC_CONTRACTS
struct std_vector_linalg_vec_double_3 ghost_vertPos; struct std_vector_linalg_vec_int_3 ghost_triVerts;
#undef EXPORT_LOCAL
#define EXPORT_LOCAL(x) ghost_##x = x
#endif
#ifdef SPEC_HARNESS
static int directed(int u, int v) {   /* how many triangle corners run u -> v */
  int c = 0;
  for (unsigned long t = 0; t < 12; t++) if (t < ghost_triVerts._size) {
    struct linalg_vec_int_3 T = ghost_triVerts._data[t];
    c += (T.x == u && T.y == v) + (T.y == u && T.z == v) + (T.z == u && T.x == v);
  }
  return c;
}
static double det3(struct linalg_vec_double_3 a, struct linalg_vec_double_3 b, struct linalg_vec_double_3 c) {
  return a.x * (b.y * c.z - b.z * c.y) - a.y * (b.x * c.z - b.z * c.x) + a.z * (b.x * c.y - b.y * c.x);
}
static void one_shape(int shape, unsigned long nv, unsigned long nt, double six_vol) {
  struct Manifold_Impl impl; struct linalg_mat_double_3_4 m;
  Impl_FromShape(&impl, shape, m);
  unsigned long NV = ghost_vertPos._size, NT = ghost_triVerts._size;
  __CPROVER_assert(NV == nv && NT == nt, "vertex and triangle counts of the shape (V - E + F = 2 with E = 3F/2)");
  double vol6 = 0;
  for (unsigned long t = 0; t < 12; t++) if (t < NT) {
    struct linalg_vec_int_3 T = ghost_triVerts._data[t];
    __CPROVER_assert(T.x >= 0 && T.y >= 0 && T.z >= 0 && (unsigned long)T.x < NV && (unsigned long)T.y < NV && (unsigned long)T.z < NV, "every index is in range");
    __CPROVER_assert(T.x != T.y && T.y != T.z && T.x != T.z, "no triangle repeats a vertex");
    __CPROVER_assert(directed(T.x, T.y) == 1 && directed(T.y, T.x) == 1 && directed(T.y, T.z) == 1 && directed(T.z, T.y) == 1 && directed(T.z, T.x) == 1 && directed(T.x, T.z) == 1,
                     "every directed edge occurs exactly once and is matched by exactly one opposite edge");
    vol6 += det3(ghost_vertPos._data[T.x], ghost_vertPos._data[T.y], ghost_vertPos._data[T.z]);
  }
  __CPROVER_assert(vol6 == six_vol, "triangles are oriented outward: six times the signed volume is the analytic value");
}
void h_shapes(void) {
  HARNESS_END;
  one_shape(0, 4, 4, 16.0);    /* tetrahedron with vertices at alternate corners of [-1,1]^3: volume 8/3 */
  one_shape(1, 8, 12, 6.0);    /* unit cube */
  one_shape(2, 6, 8, 8.0);     /* octahedron |x|+|y|+|z| <= 1: volume 4/3 */
}
void h_cube_octant(void) {
  HARNESS_END;
  struct Manifold_Impl impl; struct linalg_mat_double_3_4 m;
  Impl_FromShape(&impl, 1, m);
  for (int v = 0; v < 8; v++) { struct linalg_vec_double_3 p = ghost_vertPos._data[v];
    __CPROVER_assert((p.x == 0 || p.x == 1) && (p.y == 0 || p.y == 1) && (p.z == 0 || p.z == 1), "the unit cube's vertices are the corners of [0,1]^3 (first octant)"); }
}
#endif
