/* C07: "every output triangle's (originalID, faceID, transform, backside flag) names the input instance it came from":
 * the relation table (meshID -> originalID, transform, backSide, hasNormals) of a Boolean result is the union of the
 * operands' tables, with Q's mesh IDs shifted by the ID counter (the same shift MapTriRef applies to Q's triangles) and
 * Q's backSide flipped exactly when the operation inverts Q (A - B). */
#ifdef SPEC_CONTRACTS
#endif
#ifdef SPEC_HARNESS
#define NE 2
static struct std_pair_int_Manifold_Impl_Relation bufP[NE], bufQ[NE], bufR[2 * NE];
static _Bool rel_eq(const struct Manifold_Impl_Relation *a, const struct Manifold_Impl_Relation *b, _Bool flip) {
  return a->originalID == b->originalID && __CPROVER_equal(a->transform, b->transform) && a->hasNormals == b->hasNormals && a->backSide == (b->backSide ^ flip);
}
static struct Manifold_Impl_Relation *lookup(struct std_map_int_Manifold_Impl_Relation *m, int k) {
  for (unsigned long i = 0; i < 2 * NE; i++) if (i < m->_size && m->_data[i].first == k) return &m->_data[i].second;
  return 0;
}
void h_updateref(void) {
  struct Manifold_Impl P, Q, R;
  unsigned long nP = nondet_ulong(), nQ = nondet_ulong(); __CPROVER_assume(nP <= NE && nQ <= NE);
  for (int i = 0; i < NE; i++) { struct std_pair_int_Manifold_Impl_Relation a, b; bufP[i] = a; bufQ[i] = b;
    bufP[i].second.backSide = nondet_bool(); bufP[i].second.hasNormals = nondet_bool(); bufQ[i].second.backSide = nondet_bool(); bufQ[i].second.hasNormals = nondet_bool(); }   /* arbitrary contents (an uninitialised _Bool would be an arbitrary byte in cbmc) */
  P.meshRelation_.meshIDtransform._data = bufP; P.meshRelation_.meshIDtransform._size = nP; P.meshRelation_.meshIDtransform._cap = NE;
  Q.meshRelation_.meshIDtransform._data = bufQ; Q.meshRelation_.meshIDtransform._size = nQ; Q.meshRelation_.meshIDtransform._cap = NE;
  R.meshRelation_.meshIDtransform._data = bufR; R.meshRelation_.meshIDtransform._size = 0;  R.meshRelation_.meshIDtransform._cap = 2 * NE;
  /* every mesh ID in use was handed out by ReserveIDs, so it is below the counter; keys of a map are unique */
  unsigned counter = nondet_uint(); __CPROVER_assume(counter >= 1 && counter <= (1u << 30));
  Manifold_Impl_meshIDCounter._v = counter;
  for (int i = 0; i < NE; i++) __CPROVER_assume(bufP[i].first >= 0 && (unsigned)bufP[i].first < counter && bufQ[i].first >= 0 && (unsigned)bufQ[i].first < counter);
  __CPROVER_assume(bufP[0].first != bufP[1].first && bufQ[0].first != bufQ[1].first);
  _Bool invertQ = nondet_bool();
  unsigned long j = nondet_ulong(), k = nondet_ulong();   /* ghosts: any entry of P, any entry of Q */
  struct std_pair_int_Manifold_Impl_Relation eP = bufP[j < NE ? j : 0], eQ = bufQ[k < NE ? k : 0];
  HARNESS_END;
  SATISFIABLE(nP == 2 && nQ == 2 && invertQ && bufQ[1].second.backSide);
  UpdateReference(&R, &P, &Q, invertQ, 0);
  struct std_map_int_Manifold_Impl_Relation *out = &R.meshRelation_.meshIDtransform;
  __CPROVER_assert(out->_size == nP + nQ, "the result's table has one entry per operand entry (shifted keys cannot collide)");
  if (j < nP) { struct Manifold_Impl_Relation *r = lookup(out, eP.first);
    __CPROVER_assert(r != 0 && rel_eq(r, &eP.second, 0), "every relation of P is carried over under the same mesh ID, unchanged"); }
  if (k < nQ) { struct Manifold_Impl_Relation *r = lookup(out, eQ.first + (int)counter);
    __CPROVER_assert(r != 0 && r->originalID == eQ.second.originalID && __CPROVER_equal(r->transform, eQ.second.transform) && r->hasNormals == eQ.second.hasNormals, "every relation of Q is carried over under its mesh ID shifted by the ID counter");
    __CPROVER_assert(r != 0 && r->backSide == (eQ.second.backSide ^ invertQ), "Q's backSide flag is flipped exactly when the operation inverts Q"); }
}
#endif
