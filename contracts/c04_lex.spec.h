#define NONAN2(v) ((v).x == (v).x && (v).y == (v).y)
#ifdef SPEC_CONTRACTS
double stub_YAtX(struct linalg_vec_double_2 *l, struct linalg_vec_double_2 *r, double x) { return nondet_double(); } /* interpolation: floating point, not reached */
#endif
#ifdef SPEC_HARNESS
/* C11: "constructing from arbitrary contours fills exactly the points of positive winding (or odd
 * winding for EvenOdd), and Boolean results contain exactly the points given by the set formula":
 * with operands regularized to winding {0,1}, A+B is w>0, A^B is w>1 (both), A-B feeds B negated
 * and uses the Add rule */
void h_IsInside(void) {
  long w = nondet_long();
  __CPROVER_assert(IsInside(0 /*Add*/, w) == (w > 0), "Add: positive winding is inside");
  __CPROVER_assert(IsInside(1 /*Intersect*/, w) == (w > 1), "Intersect: inside both regularized operands");
  __CPROVER_assert(IsInside(2 /*EvenOdd*/, w) == ((w & 1) != 0), "EvenOdd: odd winding, negative windings included");
  int a = nondet_int(), b = nondet_int();
  __CPROVER_assume((a == 0 || a == 1) && (b == 0 || b == 1));
  __CPROVER_assert(IsInside(0, (long)a + b) == (a || b), "union of regularized operands");
  __CPROVER_assert(IsInside(1, (long)a + b) == (a && b), "intersection of regularized operands");
  __CPROVER_assert(IsInside(0, (long)a - b) == (a && !b), "difference: second operand enters with negative multiplicity under the Add rule");
  /* OnInterior, vertical branch (exact): strictly between the endpoints of a vertical segment */
  struct linalg_vec_double_2 v, p, q;
  __CPROVER_assume(NONAN2(v) && NONAN2(p) && NONAN2(q) && p.x == q.x && p.y < q.y);
  __CPROVER_assert(OnInterior(&v, &p, &q) == (v.x == p.x && p.y < v.y && v.y < q.y), "vertex on the interior of a vertical edge: exact, endpoints excluded");
  __CPROVER_assert(OnInterior(&v, &p, &q) == OnInterior(&v, &q, &p), "edge direction does not matter");
  HARNESS_END;
}
static struct LexLess lexless_obj;
#define LL(x, y) LexLess_call(&lexless_obj, &(x), &(y))
void h_LexLess_order(void) {
  struct linalg_vec_double_2 a, b, c;
  __CPROVER_assume(NONAN2(a) && NONAN2(b) && NONAN2(c));
  ASSERT_STRICT_ORDER(LL, a, b, c);
  __CPROVER_assert(IMPLIES(a.x != b.x || a.y != b.y, LL(a, b) || LL(b, a)), "total on distinct points");
  HARNESS_END;
}
static struct PairLexLess pairlexless_obj;
#define PLL(x, y) PairLexLess_call(&pairlexless_obj, &(x), &(y))
void h_PairLexLess_order(void) {
  struct std_pair_linalg_vec_double_2_linalg_vec_double_2 a, b, c;
  __CPROVER_assume(NONAN2(a.first) && NONAN2(a.second) && NONAN2(b.first) && NONAN2(b.second) && NONAN2(c.first) && NONAN2(c.second));
  ASSERT_STRICT_ORDER(PLL, a, b, c);
  __CPROVER_assert(IMPLIES(a.first.x != b.first.x || a.first.y != b.first.y || a.second.x != b.second.x || a.second.y != b.second.y,
                           PLL(a, b) || PLL(b, a)), "total on distinct point pairs");
  HARNESS_END;
}
#endif
