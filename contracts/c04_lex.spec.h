#ifdef SPEC_HARNESS
#define NONAN2(v) ((v).x == (v).x && (v).y == (v).y)
static struct LexLess lexless_obj;
#define LL(x, y) LexLess_call(&lexless_obj, &(x), &(y))
void h_LexLess_order(void) {
  struct linalg_vec_double_2 a, b, c;
  __CPROVER_assume(NONAN2(a) && NONAN2(b) && NONAN2(c));
  ASSERT_STRICT_ORDER(LL, a, b, c);
  __CPROVER_assert(IMPLIES(a.x != b.x || a.y != b.y, LL(a, b) || LL(b, a)), "total on distinct points");
  HARNESS_END;
}
static struct PairLexLess pairlexless_obj;
#define PLL(x, y) PairLexLess_call(&pairlexless_obj, &(x), &(y))
void h_PairLexLess_order(void) {
  struct std_pair_linalg_vec_double_2_linalg_vec_double_2 a, b, c;
  __CPROVER_assume(NONAN2(a.first) && NONAN2(a.second) && NONAN2(b.first) && NONAN2(b.second) && NONAN2(c.first) && NONAN2(c.second));
  ASSERT_STRICT_ORDER(PLL, a, b, c);
  __CPROVER_assert(IMPLIES(a.first.x != b.first.x || a.first.y != b.first.y || a.second.x != b.second.x || a.second.y != b.second.y,
                           PLL(a, b) || PLL(b, a)), "total on distinct point pairs");
  HARNESS_END;
}
#endif
