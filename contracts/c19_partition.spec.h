/* C19: "every topological subdivision pattern uses each of its vertices once and tiles its triangle
 * or quad exactly" rests on patterns being cached under a canonical key and mapped back through idx:
 * idx must be a permutation and the canonical key must be that permutation of the input divisions. */
#ifdef SPEC_CONTRACTS
struct linalg_vec_int_4 ghost_sorted, ghost_idx;
int ghost_fell;
#undef EXPORT_LOCAL
#define EXPORT_LOCAL(x) ghost_export_##x(x)
static inline void ghost_export_sortedDiv(struct linalg_vec_int_4 v) { ghost_sorted = v; }
static inline void ghost_export_triIdx(struct linalg_vec_int_4 v) { ghost_idx = v; }
#undef REGION_FALLTHROUGH
#define REGION_FALLTHROUGH ghost_fell = 1
struct Partition stub_Partition_default(void) { struct Partition p; return p; }
#endif
#ifdef SPEC_HARNESS
#define AT4(v, i) ((i) == 0 ? (v).x : (i) == 1 ? (v).y : (i) == 2 ? (v).z : (v).w)
void h_GetPartition(void) {
  struct linalg_vec_int_4 d;
  __CPROVER_assume(d.x >= 0 && d.y >= 1 && d.z >= 1 && d.w >= 0 && d.x < 100000 && d.y < 100000 && d.z < 100000 && d.w < 100000);
  ghost_fell = 0;
  HARNESS_END;
  (void)GetPartition_head(d);
  __CPROVER_assert(ghost_fell == (d.x != 0), "a zero first division marks the unused side of a quad and is skipped");
  if (ghost_fell) {
    struct linalg_vec_int_4 s = ghost_sorted, t = ghost_idx;
    __CPROVER_assert(0 <= t.x && t.x < 4 && 0 <= t.y && t.y < 4 && 0 <= t.z && t.z < 4 && 0 <= t.w && t.w < 4 &&
                     t.x != t.y && t.x != t.z && t.x != t.w && t.y != t.z && t.y != t.w && t.z != t.w, "idx is a permutation of {0,1,2,3}");
    __CPROVER_assert(s.x == AT4(d, t.x) && s.y == AT4(d, t.y) && s.z == AT4(d, t.z) && s.w == AT4(d, t.w), "the canonical key is the input divisions permuted by idx");
    if (d.w == 0) {
      __CPROVER_assert(s.x >= s.y && s.y >= s.z && s.w == 0 && t.w == 3, "triangle: the three divisions are sorted descending, the fourth slot stays in place");
    } else {
      __CPROVER_assert(t.y == (t.x + 1) % 4 && t.z == (t.x + 2) % 4 && t.w == (t.x + 3) % 4, "quad: a rotation (no reflection)");
      __CPROVER_assert(s.x <= d.x && s.x <= d.y && s.x <= d.z && s.x <= d.w, "quad: rotation starts at a smallest division");
      /* among the rotations starting at a smallest division the one with the smallest successor is chosen */
      __CPROVER_assert(IMPLIES(d.x == s.x, s.y <= d.y) && IMPLIES(d.y == s.x, s.y <= d.z) && IMPLIES(d.z == s.x, s.y <= d.w) && IMPLIES(d.w == s.x, s.y <= d.x), "quad: ties broken by the next division");
    }
  }
}
#endif
