/* C15: "ctx-aware for_each chunk checks and the post-loop IsCancelled invariant" (parallel.h:400-438): "skip the rest of
 * the range" is only safe because the caller re-checks IsCancelled afterwards -- so the loop may stop early ONLY after
 * the cancellation flag has been observed set, and what it did run must be a prefix, in order, each element once. */
#ifdef SPEC_CONTRACTS
struct verif_Visit;
int *ghost_next; int ghost_cancel; _Bool ghost_order_ok;
_Bool nondet_bool(void);
_Bool stub_IsCancelled(void);
void stub_visit(struct verif_Visit* self, int* x);
#define OFF(p) ((long)__CPROVER_POINTER_OFFSET(p))
#define LOOPSPEC_ctx_for_each_0 \
  __CPROVER_assigns(i, since_check, ghost_next, ghost_cancel, ghost_order_ok) \
  __CPROVER_loop_invariant(__CPROVER_same_object(i, first) && __CPROVER_same_object(last, first) && OFF(first) <= OFF(i) && OFF(i) <= OFF(last) && \
                           (OFF(i) - OFF(first)) % 4 == 0 && ghost_next == i && ghost_order_ok && ghost_cancel == 0 && since_check < 1024) \
  __CPROVER_decreases(OFF(last) - OFF(i))
#endif
#ifdef SPEC_HARNESS
_Bool stub_IsCancelled(void) { if (nondet_bool()) ghost_cancel = 1; return ghost_cancel != 0; }
void stub_visit(struct verif_Visit* self, int* x) { if (x != ghost_next) ghost_order_ok = 0; ghost_next = x + 1; }
void h_foreach(void) {
  unsigned long n = nondet_ulong(); __CPROVER_assume(n <= 100000000ul);
  int *arr = malloc(n * sizeof(int)); __CPROVER_assume(arr != 0);
  struct ExecutionContext_Impl ctx; struct verif_Visit f;
  ghost_next = arr; ghost_cancel = 0; ghost_order_ok = 1;
  HARNESS_END;
  ctx_for_each(nondet_int(), arr, arr + n, &ctx, f);
  __CPROVER_assert(ghost_order_ok, "the visitor sees consecutive elements starting at the first, each once");
  __CPROVER_assert(__CPROVER_same_object(ghost_next, arr) && arr <= ghost_next && ghost_next <= arr + n, "what was visited is a prefix of the range");
  __CPROVER_assert(IMPLIES(ghost_cancel == 0, ghost_next == arr + n), "without an observed cancellation the whole range is visited");
  __CPROVER_assert(IMPLIES(ghost_next != arr + n, ghost_cancel != 0), "the range is cut short only after IsCancelled answered true (the caller's post-loop check will see it)");
}
#endif
