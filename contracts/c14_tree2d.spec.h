/* C14: "QueryTwoDTree ... returns exactly the points a brute-force scan would" (the 'only if' half and the memory
 * safety of the traversal); C09: "never reads or writes out of bounds".
 * tree2d.h keeps an explicit stack of 64 (rect, view, level) entries; the only protection is a DEBUG_ASSERT that
 * release builds compile out.  Proof idea (loop invariant of the main loop, n = number of points):
 *   every view (current and stacked) is a sub-range of the point array whose length is at most n >> its level;
 *   a node is split only while its view has more than 8 points, so n >> level >= 9 and level <= 60;
 *   stacked entry k has level >= k+1 and stackPointer <= level  =>  every push lands in slot <= 60 < 64. */
#ifdef SPEC_CONTRACTS
struct PolyVert *ghost_base; unsigned long ghost_n; struct Rect ghost_r; int ghost_reports, ghost_bad_report;
struct lambda_at_repo_src_polygon_cpp_529_46;
static inline void stub_report(void *f, struct PolyVert p) {
  ghost_reports = 1;
  if (!(ghost_r.min.x <= p.pos.x && ghost_r.min.y <= p.pos.y && ghost_r.max.x >= p.pos.x && ghost_r.max.y >= p.pos.y)) ghost_bad_report = 1;
}
#define OFF(p) ((unsigned long)(__CPROVER_POINTER_OFFSET(p) / sizeof(struct PolyVert)))
#define SUBVIEW(v, lvl) (__CPROVER_same_object((v).ptr_, ghost_base) && OFF((v).ptr_) <= ghost_n && (v).size_ <= ghost_n - OFF((v).ptr_) && (v).size_ <= (ghost_n >> (lvl)))
#define LEAFLOOP(it, end, view) \
  __CPROVER_assigns(it, ghost_reports, ghost_bad_report) \
  __CPROVER_loop_invariant(__CPROVER_same_object(it, end) && __CPROVER_POINTER_OFFSET(it) <= __CPROVER_POINTER_OFFSET(end) && \
      __CPROVER_POINTER_OFFSET(it) >= __CPROVER_POINTER_OFFSET((view).ptr_) && \
      (__CPROVER_POINTER_OFFSET(end) - __CPROVER_POINTER_OFFSET(it)) % sizeof(struct PolyVert) == 0 && !ghost_bad_report) \
  __CPROVER_decreases(__CPROVER_POINTER_OFFSET(end) - __CPROVER_POINTER_OFFSET(it))
#define LOOPSPEC_QueryTwoDTree_0 LEAFLOOP(__it0, __end0, points)
#define LOOPSPEC_QueryTwoDTree_2 LEAFLOOP(__it2, __end2, currentView)
#define LOOPSPEC_QueryTwoDTree_1 \
  __CPROVER_assigns(level, stackPointer, currentView, current, rectStack, viewStack, levelStack, ghost_reports, ghost_bad_report LOOPTMPS_QueryTwoDTree_1) \
  __CPROVER_loop_invariant(0 <= stackPointer && stackPointer <= level && level <= 63 && ghost_n == points.size_ && ghost_base == points.ptr_ && \
      SUBVIEW(currentView, level) && !ghost_bad_report && \
      __CPROVER_forall { int qk; (0 <= qk && qk < 64) ==> (qk < stackPointer ==> \
          (levelStack._M_elems[qk] >= qk + 1 && levelStack._M_elems[qk] <= 63 && SUBVIEW(viewStack._M_elems[qk], levelStack._M_elems[qk]))) })
#endif
#ifdef SPEC_HARNESS
void h_query(void) {
  struct VecView_PolyVert pts; struct Rect r; struct lambda_at_repo_src_polygon_cpp_529_46 f;
  unsigned long n = nondet_ulong();
  __CPROVER_assume(n <= (1ul << 40));
  pts.size_ = n; pts.ptr_ = malloc(pts.size_ * sizeof(struct PolyVert)); __CPROVER_assume(pts.ptr_ != 0);
  ghost_base = pts.ptr_; ghost_n = n; ghost_r = r; ghost_reports = 0; ghost_bad_report = 0;
  HARNESS_END;
  SATISFIABLE(n > 100);
  QueryTwoDTree(pts, r, f);
  __CPROVER_assert(!ghost_bad_report, "only points inside the query rectangle (closed) are reported");
}
#endif
