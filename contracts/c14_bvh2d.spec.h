/* C14: "The 2D edge-pair broad phase ... returns exactly the boxes a brute-force scan would" -- the index
 * bookkeeping between the Morton-sorted leaf order and the caller's edge order:
 *  (1) BVHBuildFromBoxes: after the leaf loop, leaf slot s (node Leaf2Node(s)) carries the box of ORIGINAL
 *      element leafToOrig[s]; internal-node slots are not written by this loop;
 *  (2) CollidePairs' adapter reports a hit on leaf slot s as original index leafToOrig[s], query index unchanged.
 * (1)+(2): a reported pair (q, j) comes from an overlap test between query q and box j. */
#ifdef SPEC_CONTRACTS
int ghost_s, ghost_node, ghost_other;
#define ELEMINV_leafToOrig(x) (0 <= (x) && (x) < n)
#define BOXEQ(a, b) ((a).min.x == (b).min.x && (a).min.y == (b).min.y && (a).max.x == (b).max.x && (a).max.y == (b).max.y)
struct Box2 ghost_other_old;
#define LOOPSPEC_BVH_leafboxes_0 \
  __CPROVER_assigns(i, __CPROVER_object_whole(out.nodeBBox._data) LOOPTMPS_BVH_leafboxes_0) \
  __CPROVER_loop_invariant(0 <= i && i <= n && \
      (ghost_s < i ? BOXEQ(out.nodeBBox._data[ghost_node], boxes->_data[out.leafToOrig._data[ghost_s]]) : 1) && \
      BOXEQ(out.nodeBBox._data[ghost_other], ghost_other_old)) \
  __CPROVER_decreases(n - i)
void *ghost_cb; int ghost_cb_q, ghost_cb_idx, ghost_cb_calls;
static inline void stub_report(void *f, int qi, int idx) { ghost_cb = f; ghost_cb_q = qi; ghost_cb_idx = idx; ghost_cb_calls++; }
int ghost_hit_q, ghost_hit_slot, ghost_trav_calls, ghost_trav_n; _Bool ghost_trav_parallel; void *ghost_trav_bvh;
void stub_BVHCollisions(void *bvh, void *recorder, void *qf, int n, _Bool parallel);
#endif
#ifdef SPEC_HARNESS
void h_leafboxes(void) {
  unsigned long n = nondet_ulong();
  __CPROVER_assume(n >= 1 && n <= 500000000ul);                 /* n is an int; 2n-1 nodes */
  struct BVH out; struct std_vector_Box2 boxes;
  boxes._size = n; boxes._cap = n; boxes._data = malloc(boxes._size * sizeof(struct Box2));
  out.leafToOrig._size = n; out.leafToOrig._cap = n; out.leafToOrig._data = malloc(out.leafToOrig._size * sizeof(int));
  out.nodeBBox._size = 2 * n - 1; out.nodeBBox._cap = out.nodeBBox._size; out.nodeBBox._data = malloc(out.nodeBBox._size * sizeof(struct Box2));
  __CPROVER_assume(boxes._data != 0 && out.leafToOrig._data != 0 && out.nodeBBox._data != 0);
  ghost_s = nondet_int();
  __CPROVER_assume(0 <= ghost_s && (unsigned long)ghost_s < n);
  /* leafToOrig is a permutation of [0,n) (iota + stable_sort): its entries are element indices */
  int orig = out.leafToOrig._data[ghost_s];
  __CPROVER_assume(0 <= orig && (unsigned long)orig < n);
  struct Box2 want = boxes._data[orig];
  __CPROVER_assume(want.min.x == want.min.x && want.min.y == want.min.y && want.max.x == want.max.x && want.max.y == want.max.y);
  ghost_node = Leaf2Node(ghost_s);
  /* an internal-node slot (not a leaf node): untouched */
  ghost_other = nondet_int();
  __CPROVER_assume(0 <= ghost_other && (unsigned long)ghost_other < 2 * n - 1 && !IsLeaf(ghost_other));
  ghost_other_old = out.nodeBBox._data[ghost_other];
  __CPROVER_assume(ghost_other_old.min.x == ghost_other_old.min.x && ghost_other_old.min.y == ghost_other_old.min.y && ghost_other_old.max.x == ghost_other_old.max.x && ghost_other_old.max.y == ghost_other_old.max.y);
  HARNESS_END;
  (void)BVH_leafboxes(out, (int)n, &boxes);
  __CPROVER_assert(BOXEQ(out.nodeBBox._data[Leaf2Node(ghost_s)], want), "leaf slot s carries the box of original element leafToOrig[s]");
  __CPROVER_assert(BOXEQ(out.nodeBBox._data[ghost_other], ghost_other_old), "the leaf loop writes leaf nodes only");
}
/* the traversal, abstracted: it reports one arbitrary (query, leaf slot) hit through the recorder it was handed */
void stub_BVHCollisions(void *bvh, void *recorder, void *qf, int n, _Bool parallel) {
  ghost_trav_calls++; ghost_trav_n = n; ghost_trav_parallel = parallel; ghost_trav_bvh = bvh;
  SELFTYPE_Recorder_record *r = recorder;
  Recorder_record(r, ghost_hit_q, ghost_hit_slot, r->f);
}
void h_collidepairs(void) {
  unsigned long n = nondet_ulong(), nq = nondet_ulong();
  __CPROVER_assume(n >= 2 && n <= 500000000ul && nq >= 1 && nq <= 500000000ul);
  struct BVH bvh;
  bvh.leafToOrig._size = n; bvh.leafToOrig._cap = n; bvh.leafToOrig._data = malloc(bvh.leafToOrig._size * sizeof(int));
  bvh.internalChildren._size = n - 1; bvh.internalChildren._cap = n - 1; bvh.internalChildren._data = malloc(bvh.internalChildren._size * sizeof(struct std_pair_int_int));
  __CPROVER_assume(bvh.leafToOrig._data != 0 && bvh.internalChildren._data != 0);
  struct std_vector_Box2 queries; queries._size = nq; queries._cap = nq; queries._data = malloc(queries._size * sizeof(struct Box2));
  __CPROVER_assume(queries._data != 0);
  void *cb = (void *)nondet_ulong();
  ghost_hit_q = nondet_int(); ghost_hit_slot = nondet_int();
  __CPROVER_assume(0 <= ghost_hit_q && (unsigned long)ghost_hit_q < nq && 0 <= ghost_hit_slot && (unsigned long)ghost_hit_slot < n);
  ghost_cb_calls = 0; ghost_trav_calls = 0;
  HARNESS_END;
  CollidePairs_fn(&bvh, &queries, cb);
  __CPROVER_assert(ghost_trav_calls == 1 && ghost_trav_bvh == (void *)&bvh && (unsigned long)ghost_trav_n == nq, "every query box is traversed once against this BVH");
  __CPROVER_assert(!ghost_trav_parallel, "the traversal is sequential: the caller's callback appends to one shared pair list");
  __CPROVER_assert(ghost_cb_calls == 1 && ghost_cb == cb, "each leaf hit is reported exactly once to the caller's callback");
  __CPROVER_assert(ghost_cb_q == ghost_hit_q && ghost_cb_idx == bvh.leafToOrig._data[ghost_hit_slot],
                   "a hit on leaf slot s is reported as ORIGINAL index leafToOrig[s] (the index space of the caller's boxes), query index unchanged");
}
#endif
