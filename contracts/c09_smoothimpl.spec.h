/* C09: "every constructor ... returns normally with either a usable result or an empty Manifold carrying a specific
 * Error; it never reads or writes out of bounds" -- Manifold::Smooth(MeshGL, sharpenedEdges): when the ingest of the
 * MeshGL failed, the Impl is empty; tangent creation on it indexes halfedge 0 of an empty mesh (UpdateSharpenedEdges
 * maps unknown halfedge indices to 0).  So CreateTangents / UpdateSharpenedEdges run only on a NoError Impl. */
#ifdef SPEC_CONTRACTS
struct Manifold_Impl;
struct Manifold_Impl* stub_make_impl(void);
_Bool stub_IsCancelled(void);
#endif
#ifdef SPEC_HARNESS
static struct Manifold_Impl g_impl[2]; static int g_made; static _Bool g_cancel_at_entry;
static struct TriRef g_triref[2]; static int g_start[6];
struct Manifold_Impl* stub_make_impl(void) { __CPROVER_assert(g_made < 2, "at most two Impl objects are made"); return &g_impl[g_made++]; }
_Bool stub_IsCancelled(void) { return g_cancel_at_entry; }
#define SMOOTH_HARNESS(NAME, FN, MESHT, IDXT) \
void NAME(void) { \
  struct MESHT mesh; struct std_vector_Smoothness sharp; struct ExecutionContext_Impl* ctx; \
  IDXT fid[2]; mesh.faceID._data = fid; __CPROVER_assume(mesh.faceID._size <= 2); \
  g_cancel_at_entry = nondet_bool(); g_made = 0; \
  for (int i = 0; i < 2; i++) { \
    unsigned long nt = nondet_ulong(); __CPROVER_assume(nt <= 2); \
    g_impl[i].status_ = nondet_int(); /* statics are zero-initialised: the ingest outcome must be made arbitrary explicitly */ \
    g_impl[i].halfedge_.start_._base0.ptr_ = g_start; g_impl[i].halfedge_.start_._base0.size_ = 3 * nt; \
    g_impl[i].meshRelation_.triRef._base0.ptr_ = g_triref; g_impl[i].meshRelation_.triRef._base0.size_ = nt; \
    /* representation invariant (C01): an Impl with an error status is empty */ \
    __CPROVER_assume(IMPLIES(g_impl[i].status_ != 0, nt == 0)); \
  } \
  for (int i = 0; i < 2; i++) __CPROVER_assume(g_triref[i].faceID >= 0 && g_triref[i].faceID < 2); \
  int st0 = g_impl[0].status_; \
  ghost_rec_CreateTangents_calls = 0; ghost_rec_UpdateSharpenedEdges_calls = 0; ghost_rec_MakeEmpty_calls = 0; \
  HARNESS_END; \
  SATISFIABLE(!g_cancel_at_entry && g_impl[0].status_ == 3); \
  struct Manifold_Impl* r = FN(&mesh, &sharp, ctx); \
  __CPROVER_assert(r == &g_impl[0] && g_made == 1, "the Impl that was made is the one returned"); \
  __CPROVER_assert(IMPLIES(g_cancel_at_entry, ghost_rec_MakeEmpty_calls == 1 && ghost_rec_MakeEmpty_self == (void*)r && ghost_rec_MakeEmpty_status == 14 && ghost_rec_CreateTangents_calls == 0 && ghost_rec_UpdateSharpenedEdges_calls == 0), "cancelled at entry: an empty Impl marked Cancelled, nothing else runs"); \
  __CPROVER_assert(IMPLIES(!g_cancel_at_entry && st0 != 0, ghost_rec_CreateTangents_calls == 0 && ghost_rec_UpdateSharpenedEdges_calls == 0), "when the ingest of the MeshGL failed (any error, not only Cancelled) no tangent creation runs on the emptied Impl"); \
  __CPROVER_assert(IMPLIES(!g_cancel_at_entry && st0 != 0, r->status_ == st0 && ghost_rec_MakeEmpty_calls == 0), "the ingest error is returned unchanged"); \
  __CPROVER_assert(IMPLIES(!g_cancel_at_entry && st0 == 0, ghost_rec_CreateTangents_calls == 1 && ghost_rec_UpdateSharpenedEdges_calls == 1 && ghost_rec_CreateTangents_self == (void*)r && ghost_rec_UpdateSharpenedEdges_self == (void*)r && ghost_rec_UpdateSharpenedEdges_arg0 == (void*)&sharp), "a successfully ingested mesh gets its tangents from the caller's sharpened edges"); \
}
SMOOTH_HARNESS(h_smooth64, MakeSmoothImpl64, MeshGLP_double_unsigned_long, unsigned long)
SMOOTH_HARNESS(h_smooth32, MakeSmoothImpl32, MeshGLP_float_unsigned_int, unsigned int)
#endif
