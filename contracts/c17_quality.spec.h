/* C17: "Quality settings determine segment counts as documented" (common.h Quality, manifold.cpp:40-120):
 *   SetCircularSegments(n): n >= 3 is used exactly ("sets the number of segments to exactly this value"), 0 removes the
 *     constraint, anything else is ignored;
 *   SetMinCircularAngle(a) / SetMinCircularEdgeLength(l): "the number of segments will be rounded up to the nearest
 *     factor of four" of min(360 / a, 2 pi r / l) -- a SMALLER minimum angle can only give MORE segments (until the edge
 *     length takes over); non-positive (and NaN) values are ignored;
 *   the result is at least 4. */
#ifdef SPEC_HARNESS
static int roundup4(double m) { int n = (int)(m + 3); return n - n % 4; }
static void case_al(double angle, double len, double radius) {
  circularSegments = 0; circularAngle = 10.0; circularEdgeLength = 1.0;        /* the defaults */
  Q_SetAngle(angle); Q_SetLength(len);
  __CPROVER_assert(circularAngle == angle && circularEdgeLength == len, "positive settings are stored");
  int n = Q_Get(radius);
  double a = 360.0 / angle, l = 2.0 * (radius < 0 ? -radius : radius) * 3.14159265358979323846 / len;
  double m = a < l ? a : l;
  __CPROVER_assert(n >= 4 && n % 4 == 0, "a multiple of four, at least four");
  __CPROVER_assert(IMPLIES(m <= 1e9, n == (roundup4(m) > 4 ? roundup4(m) : 4)), "min(360/angle, 2 pi r/length) rounded up to a multiple of four");
}
void h_quality(void) {
  HARNESS_END;
  /* explicit segment count */
  int k = nondet_int(); circularSegments = 0;
  Q_SetSegments(k);
  __CPROVER_assert(circularSegments == ((k >= 3 || k == 0) ? k : 0), "SetCircularSegments keeps n >= 3 or 0 and ignores everything else");
  double r = nondet_double(); circularSegments = 7;
  __CPROVER_assert(Q_Get(r) == 7, "an explicit segment count is returned exactly, whatever the radius");
  /* non-positive and NaN settings are ignored */
  circularAngle = 10.0; circularEdgeLength = 1.0;
  double bad = nondet_double(); __CPROVER_assume(!(bad > 0));     /* <= 0, or NaN */
  Q_SetAngle(bad); Q_SetLength(bad);
  __CPROVER_assert(circularAngle == 10.0 && circularEdgeLength == 1.0, "a non-positive or NaN angle / length is ignored");
  /* the formula, at fixed settings (IEEE division by a symbolic value does not get through the SAT back ends) */
  case_al(10.0, 1.0, 1.0); case_al(10.0, 1.0, 100.0); case_al(45.0, 1.0, 100.0); case_al(1.0, 0.001, 2.5);
  case_al(1e-7, 1.0, 100.0);     /* a very small minimum angle: the edge length decides (628 -> 628) */
  case_al(1e-7, 1.0, 0.0);       /* radius 0: the minimum count */
  case_al(360.0, 1.0, 1e9);      /* a full-circle minimum angle: 1 -> 4 */
}
#endif
