/* C17: "orientation stays outward under reflections" / C01: flipping keeps the mesh a closed oriented
 * manifold: every directed edge (s,e) of a triangle becomes (e,s) in the mirrored slot, pairs follow. */
#include "halfedge_spec.h"
#ifdef SPEC_HARNESS
void h_FlipHalfedge(void) {
  int e = nondet_int();
  __CPROVER_assume(0 <= e && e < 2000000000);
  int f = FlipHalfedge(e);
  __CPROVER_assert(f / 3 == e / 3 && f % 3 == 2 - e % 3, "FlipHalfedge maps slot k of a triangle to slot 2-k of the same triangle");
  __CPROVER_assert(FlipHalfedge(f) == e, "FlipHalfedge is an involution");
  HARNESS_END;
}
void h_FlipTris(void) {
  struct Halfedges h;
  struct FlipTris s;
  unsigned long nt = nondet_ulong();
  __CPROVER_assume(nt >= 1 && nt <= 100000000ul);
  unsigned long n = 3 * nt;
  ALLOC_HALFEDGES(h, 3 * nt);
  __CPROVER_assume(HALFEDGES_UNIQUE(&h));
  s.halfedge = &h;
  int tri = nondet_int(), i = nondet_int(), g = nondet_int();
  __CPROVER_assume(0 <= tri && (unsigned long)tri < nt && 0 <= i && i < 3 && 0 <= g && (unsigned long)g < n);
  int o = 3 * tri + (2 - i);                    /* old slot that lands in new slot 3*tri+i */
  int os = HSTART(&h, o), oe = HEND(&h, o), op = HPAIR(&h, o);
  __CPROVER_assume(op >= 0 && (unsigned long)op < n);   /* live triangle of a valid mesh */
  for (int k = 0; k < 3; ++k) { int pk = HPAIR(&h, 3 * tri + k); __CPROVER_assume(-1 <= pk && (pk < 0 || (unsigned long)pk < n)); }
  int gs = HSTART(&h, g), gp = HPAIR(&h, g), gq = HPROP(&h, g);
  int q0 = HPROP(&h, 3 * tri), q1 = HPROP(&h, 3 * tri + 1), q2 = HPROP(&h, 3 * tri + 2);
  HARNESS_END;
  FlipTris_call(&s, tri);
  int nw = 3 * tri + i;
  __CPROVER_assert(HSTART(&h, nw) == oe && HEND(&h, nw) == os, "new slot i holds old slot 2-i reversed: (start,end) = (old end, old start)");
  __CPROVER_assert(HPAIR(&h, nw) == 3 * (op / 3) + (2 - op % 3), "its pair is the flipped index of the old pair");
  __CPROVER_assert(HPROP(&h, 3 * tri) == q0 && HPROP(&h, 3 * tri + 1) == q2 && HPROP(&h, 3 * tri + 2) == q1, "property vertices follow their corners (corner 0 fixed, 1 and 2 exchanged)");
  __CPROVER_assert(IMPLIES(g / 3 != tri, HSTART(&h, g) == gs && HPAIR(&h, g) == gp && HPROP(&h, g) == gq), "frame: other triangles untouched");
}
#endif
