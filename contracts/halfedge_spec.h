/* Spec vocabulary over the lowered `struct Halfedges` (three SharedVec<int>:
 * start_, paired_, propVert_; endVert is derived from the next halfedge).
 * C01's representation invariant HE(h, g) at one arbitrary ("ghost") index g:
 *   PAIR(g) == -1                                  tombstone, or
 *   0 <= PAIR(g) < n, PAIR(PAIR(g)) == g           matched by exactly one opposite edge
 *   START(g) != END(g)                             no triangle repeats a vertex
 *   START(g) == END(PAIR(g)), END(g) == START(PAIR(g))   opposite direction
 * which is literally what properties.cpp CheckHalfedges tests. */
#ifndef HALFEDGE_SPEC_H
#define HALFEDGE_SPEC_H
#define HSTART(h, i) ((h)->start_._base0.ptr_[i])
#define HPAIR(h, i) ((h)->paired_._base0.ptr_[i])
#define HPROP(h, i) ((h)->propVert_._base0.ptr_[i])
#define HSIZE(h) ((h)->start_._base0.size_)
#define NEXT3(i) ((i) % 3 == 2 ? (i)-2 : (i) + 1)
#define PREV3(i) ((i) % 3 == 0 ? (i) + 2 : (i)-1)
#define HEND(h, i) HSTART(h, NEXT3(i))
/* the three arrays are separate heap objects of the same length n = 3*numTri */
#define HALFEDGES_SHAPE(h, n)                                                         \
  ((h)->start_._base0.size_ == (n) && (h)->paired_._base0.size_ == (n) &&             \
   (h)->propVert_._base0.size_ == (n) && FRESH((h)->start_._base0.ptr_, (n)) &&        \
   FRESH((h)->paired_._base0.ptr_, (n)) && FRESH((h)->propVert_._base0.ptr_, (n)))
/* copy-on-write (C05): a buffer may be written only while its owner count is 1 */
#define HALFEDGES_COUNTS(h)                                                           \
  (FRESH((h)->start_.count_, 1) && FRESH((h)->paired_.count_, 1) && FRESH((h)->propVert_.count_, 1))
#define HALFEDGES_UNIQUE(h)                                                           \
  ((h)->start_.count_->_v == 1 && (h)->paired_.count_->_v == 1 && (h)->propVert_.count_->_v == 1)
#define COW_GUARD(h) __CPROVER_assert(HALFEDGES_UNIQUE(h), "COW: write to a Halfedges buffer whose owner count is not 1")
#define HE_PAIRING(h, n, g)                                                           \
  (HPAIR(h, g) == -1 ||                                                               \
   (0 <= HPAIR(h, g) && HPAIR(h, g) < (int)(n) && HPAIR(h, HPAIR(h, g)) == (g)))
#define HE_FULL(h, n, g)                                                              \
  (HPAIR(h, g) == -1 ||                                                               \
   (0 <= HPAIR(h, g) && HPAIR(h, g) < (int)(n) && HPAIR(h, HPAIR(h, g)) == (g) &&     \
    HSTART(h, g) != HEND(h, g) && HSTART(h, g) == HEND(h, HPAIR(h, g)) &&             \
    HEND(h, g) == HSTART(h, HPAIR(h, g))))
/* harness-side construction of shapes: separate heap objects, arbitrary contents */
#define ALLOC_VIEW(v, T, n) do { (v).size_ = (n); (v).ptr_ = (T*)malloc((v).size_ * sizeof(T)); /* size via the stored field: cbmc mis-types malloc(3*n*sizeof T) */ __CPROVER_assume((v).ptr_ != 0); } while (0)
#define ALLOC_SHAREDVEC(v, n) do { ALLOC_VIEW((v)._base0, int, n); (v).capacity_ = (n); \
    (v).count_ = (struct std_atomic_int*)malloc(sizeof(struct std_atomic_int)); __CPROVER_assume((v).count_ != 0); } while (0)
#define ALLOC_HALFEDGES(h, n) do { ALLOC_SHAREDVEC((h).start_, n); ALLOC_SHAREDVEC((h).paired_, n); ALLOC_SHAREDVEC((h).propVert_, n); } while (0)
#endif
