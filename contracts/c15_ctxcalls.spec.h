/* C15: "the call returns either the complete result identical to an uncancelled run or an empty Manifold
 * with Error::Cancelled that stays Cancelled; no partially built mesh escapes". */
#ifdef SPEC_CONTRACTS
int ghost_cancel, ghost_tainted, ghost_made_empty, ghost_status;
void stub_MakeEmpty(struct Manifold_Impl *self, int err) { ghost_made_empty = 1; ghost_status = err; ghost_tainted = 0; /* MakeEmpty discards the partial state */ }
_Bool stub_IsCancelled(void) { if (nondet_bool()) ghost_cancel = 1; return ghost_cancel; }
/* a phase that takes the context: if it observes the cancellation it returns early with the object half built */
void stub_ctx_phase(void) { if (stub_IsCancelled()) ghost_tainted = 1; }
/* an unconditional consumer of the geometry (SetNormalsAndCoplanar): running it on the partial output of an interrupted
 * SortGeometry reads a half-permuted mesh */
void stub_consumer(void) { __CPROVER_assert(!ghost_tainted, "no consumer runs on the partial output of an interrupted phase"); }
#define RESET() do { ghost_cancel = 0; ghost_tainted = 0; ghost_made_empty = 0; ghost_status = -1; } while (0)
#define POST()                                                                                                             \
  do {                                                                                                                     \
    __CPROVER_assert(!ghost_tainted, "no partially built mesh escapes: an interrupted phase is always followed by MakeEmpty"); \
    __CPROVER_assert(IMPLIES(ghost_made_empty && ghost_status == ENUM_Manifold_Error_Cancelled, ghost_cancel), "Cancelled is reported only after a cancellation was observed"); \
  } while (0)
#endif
#ifdef SPEC_HARNESS
void h_Refine(void) {
  struct Manifold_Impl impl;
  struct ExecutionContext_Impl ctx;
  struct std_function_opaque f;
  RESET();
  HARNESS_END;
  Impl_Refine(&impl, f, nondet_bool(), &ctx);
  POST();
}
void h_Hull(void) {
  struct Manifold_Impl impl;
  struct ExecutionContext_Impl ctx;
  struct VecView_linalg_vec_double_3 pts;
  pts.size_ = nondet_ulong(); pts.ptr_ = 0;
  RESET();
  HARNESS_END;
  Impl_Hull(&impl, pts, &ctx);
  POST();
}
void h_LevelSet(void) {
  struct Manifold_Impl impl;
  struct ExecutionContext_Impl ctx;
  struct std_function_opaque sdf; struct Box bounds;
  RESET();
  HARNESS_END;
  Impl_CreateLevelSet(&impl, sdf, bounds, nondet_double(), nondet_double(), nondet_double(), nondet_bool(), nondet_bool() ? &ctx : 0);
  POST();
}
#endif
