/* C15: "During one evaluation Progress() never decreases, never exceeds 1, and equals 1 after an uncancelled
 * completion": each Boolean contributes exactly kPhasesPerBoolean to the numerator unless cancelled. */
#ifdef SPEC_CONTRACTS
int ghost_cancel;
_Bool stub_IsCancelled(void) { return ghost_cancel; }
#endif
#ifdef SPEC_HARNESS
void h_PhaseBalance(void) {
  struct ExecutionContext_Impl ctx;
  struct PhaseBalance_dtor_obj b;
  int d0 = nondet_int();
  __CPROVER_assume(0 <= d0 && d0 < 100000000);
  ctx.donePhases._v = d0;
  b.ctx = nondet_bool() ? &ctx : 0;
  ghost_cancel = nondet_bool();
  /* `published` phases were already added to donePhases by the phase() sites passed before this return */
  __CPROVER_assume(0 <= b.published && b.published <= kPhasesPerBoolean);
  __CPROVER_assume(IMPLIES(b.fullPath, b.published == kPhasesPerBoolean));   /* the library's own (compiled-out) DEBUG_ASSERT */
  int published = b.published;
  HARNESS_END;
  SATISFIABLE(b.ctx != 0 && !ghost_cancel && !b.fullPath && published > 0 && published < kPhasesPerBoolean);
  PhaseBalance_dtor(&b);
  int added = ctx.donePhases._v - d0;
  __CPROVER_assert(added >= 0, "progress never decreases");
  __CPROVER_assert(IMPLIES(b.ctx != 0 && !ghost_cancel, published + added == kPhasesPerBoolean), "an uncancelled Boolean contributes exactly kPhasesPerBoolean phases however early it returned");
  __CPROVER_assert(IMPLIES(b.ctx == 0 || ghost_cancel, added == 0), "nothing is published without a context or after a cancellation");
}
#endif
