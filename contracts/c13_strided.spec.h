/* C13 (iters.h): strided column views equal their sequential meaning; C07/C08: the property matrices are copied and
 * scanned through them (Compose, Merge).  For a row-major matrix `base` with `rows` rows and NUMCOL columns and a
 * column p < NUMCOL:  R = StridedRange(base + p, base + rows*NUMCOL, NUMCOL)  has exactly `rows` elements,
 * R.begin()[i] IS base[i*NUMCOL + p], (begin()+i) points there too, ++ moves one row, and all of them are inside
 * the matrix (the generic pointer checks cover the dereferences). */
#ifdef SPEC_HARNESS
#ifndef NUMCOL
#define NUMCOL 3
#endif
void h_strided(void) {
  unsigned long rows = nondet_ulong(), p = nondet_ulong(), i = nondet_ulong();
  __CPROVER_assume(rows >= 1 && rows <= 100000000ul && p < NUMCOL && i < rows);
  unsigned long n = rows * NUMCOL;
  double *base = malloc(n * sizeof(double));
  __CPROVER_assume(base != 0);
  HARNESS_END;
  struct StridedRange_doubleP R = SR_ctor(base + p, base + n, NUMCOL);
  struct StridedRange_doubleP_StridedRangeIter b = SR_begin(&R), e = SR_end(&R);
  __CPROVER_assert(b.iter == base + p, "the view starts at column p of row 0");
  __CPROVER_assert(e.iter == base + p + rows * NUMCOL, "end() is exactly `rows` steps after begin(): one element per row");
  double *x = SRI_index(&b, i);
  __CPROVER_assert(x == base + i * NUMCOL + p, "element i of the view is matrix entry (i, p)");
  struct StridedRange_doubleP_StridedRangeIter bi = SRI_plus(&b, i);
  __CPROVER_assert(bi.iter == x && SRI_deref(&bi) == x, "begin() + i addresses the same entry");
  double v = *x;                                   /* in bounds (pointer check) */
  (void)v;
  struct StridedRange_doubleP_StridedRangeIter *nx = SRI_inc(&bi);
  __CPROVER_assert(nx == &bi && bi.iter == base + (i + 1) * NUMCOL + p, "++ advances by one row");
  __CPROVER_assert(i + 1 < rows || bi.iter == e.iter, "stepping from the last element reaches end()");
}
#endif
