/* C04: "halfedges in the same face are added in non-deterministic order, so we have to reorder them for
 * determinism" (sort.cpp) -- step 1 must be a rotation of the triangle that puts the smallest start vertex
 * first, hence its result is the same for all three arrival orders; step 2 restores pair reciprocity. */
#include "halfedge_spec.h"
#ifdef SPEC_HARNESS
#define NTMAX 100000000ul
void h_step1(void) {
  struct Manifold_Impl impl;
  struct Reorder_step1_closure c;
  unsigned long nt = nondet_ulong();
  __CPROVER_assume(nt >= 1 && nt <= NTMAX);
  ALLOC_HALFEDGES(impl.halfedge_, 3 * nt);
  __CPROVER_assume(HALFEDGES_UNIQUE(&impl.halfedge_));
  struct Halfedges *h = &impl.halfedge_;
  c.__this = &impl;
  unsigned long tri = nondet_ulong();
  __CPROVER_assume(tri < nt);
  int g = nondet_int();
  __CPROVER_assume(0 <= g && (unsigned long)g < 3 * nt);
  int s[3], p[3], q[3];
  for (int k = 0; k < 3; ++k) { s[k] = HSTART(h, 3 * tri + k); p[k] = HPAIR(h, 3 * tri + k); q[k] = HPROP(h, 3 * tri + k); }
  int gs = HSTART(h, g), gp = HPAIR(h, g), gq = HPROP(h, g);
  /* a live triangle of a valid mesh has three distinct vertices */
  __CPROVER_assume(s[0] < 0 || (s[0] != s[1] && s[1] != s[2] && s[0] != s[2] && s[1] >= 0 && s[2] >= 0));
  HARNESS_END;
  Reorder_step1(&c, tri);
  int m = s[0] < 0 ? 0 : (s[1] < s[0] ? (s[2] < s[1] ? 2 : 1) : (s[2] < s[0] ? 2 : 0));   /* position of the smallest start vertex */
  for (int k = 0; k < 3; ++k) {
    int src = (m + k) % 3;
    __CPROVER_assert(HSTART(h, 3 * tri + k) == s[src] && HPAIR(h, 3 * tri + k) == p[src] && HPROP(h, 3 * tri + k) == q[src],
                     "the triangle is rotated (cyclic order kept) so that its smallest start vertex comes first");
  }
  __CPROVER_assert(s[0] < 0 || (HSTART(h, 3 * tri) < HSTART(h, 3 * tri + 1) && HSTART(h, 3 * tri) < HSTART(h, 3 * tri + 2)), "canonical: first start vertex is the strict minimum");
  __CPROVER_assert(IMPLIES((unsigned long)(g / 3) != tri, HSTART(h, g) == gs && HPAIR(h, g) == gp && HPROP(h, g) == gq), "frame: other triangles untouched");
}
void h_step2(void) {
  struct Manifold_Impl impl;
  struct Reorder_step2_closure c;
  unsigned long nt = nondet_ulong();
  __CPROVER_assume(nt >= 1 && nt <= NTMAX);
  ALLOC_HALFEDGES(impl.halfedge_, 3 * nt);
  __CPROVER_assume(HALFEDGES_UNIQUE(&impl.halfedge_));
  struct Halfedges *h = &impl.halfedge_;
  c.__this = &impl;
  unsigned long tri = nondet_ulong();
  __CPROVER_assume(tri < nt);
  int i = nondet_int();
  __CPROVER_assume(0 <= i && i < 3);
  int cur = 3 * (int)tri + i;
  /* after step 1 each pair still names the right triangle but possibly a stale slot; the opposite triangle
   * holds the reversed edge in exactly one slot (valid mesh: no repeated vertex) */
  int sv = HSTART(h, cur), ev = HEND(h, cur);
  int of = HPAIR(h, cur) / 3;
  __CPROVER_assume(HSTART(h, 3 * tri) >= 0 && HSTART(h, 3 * tri + 1) >= 0 && HSTART(h, 3 * tri + 2) >= 0);
  __CPROVER_assume(0 <= HPAIR(h, 3 * tri) && (unsigned long)HPAIR(h, 3 * tri) < 3 * nt && 0 <= HPAIR(h, 3 * tri + 1) && (unsigned long)HPAIR(h, 3 * tri + 1) < 3 * nt &&
                   0 <= HPAIR(h, 3 * tri + 2) && (unsigned long)HPAIR(h, 3 * tri + 2) < 3 * nt);
  __CPROVER_assume((unsigned long)of != tri);
  int j = nondet_int();
  __CPROVER_assume(0 <= j && j < 3 && HEND(h, 3 * of + j) == sv && HSTART(h, 3 * of + j) == ev);             /* the reversed edge is there */
  __CPROVER_assume(HSTART(h, 3 * of) != HSTART(h, 3 * of + 1) && HSTART(h, 3 * of + 1) != HSTART(h, 3 * of + 2) && HSTART(h, 3 * of) != HSTART(h, 3 * of + 2));
  int s0[3];
  for (int k = 0; k < 3; ++k) s0[k] = HSTART(h, 3 * tri + k);
  HARNESS_END;
  Reorder_step2(&c, tri);
  __CPROVER_assert(HPAIR(h, cur) == 3 * of + j, "the pair now names the slot of the opposite triangle that holds the reversed edge");
  __CPROVER_assert(HSTART(h, HPAIR(h, cur)) == ev && HEND(h, HPAIR(h, cur)) == sv, "paired halfedges run in opposite directions");
  for (int k = 0; k < 3; ++k) __CPROVER_assert(HSTART(h, 3 * tri + k) == s0[k], "vertices are not touched by step 2");
}
void h_reindexverts(void) {
  struct Manifold_Impl impl;
  struct ReindexVerts_body_closure c;
  struct Vec_int_0 old2new;
  unsigned long nt = nondet_ulong(), nold = nondet_ulong();
  __CPROVER_assume(nt >= 1 && nt <= NTMAX && nold >= 1 && nold <= 300000000ul);
  ALLOC_HALFEDGES(impl.halfedge_, 3 * nt);
  __CPROVER_assume(HALFEDGES_UNIQUE(&impl.halfedge_));
  ALLOC_VIEW(old2new._base0, int, nold);
  struct Halfedges *h = &impl.halfedge_;
  c.__this = &impl; c.vertOld2New = &old2new; c.hasProp = nondet_bool();
  int idx = nondet_int(), g = nondet_int();
  __CPROVER_assume(0 <= idx && (unsigned long)idx < 3 * nt && 0 <= g && (unsigned long)g < 3 * nt);
  int s = HSTART(h, idx), q = HPROP(h, idx), pr = HPAIR(h, idx);
  __CPROVER_assume(s < 0 || (unsigned long)s < nold);     /* start vertices index the old vertex array; tombstones are negative */
  int gs = HSTART(h, g), gp = HPAIR(h, g), gq = HPROP(h, g);
  HARNESS_END;
  ReindexVerts_body(&c, idx);
  __CPROVER_assert(IMPLIES(s < 0, HSTART(h, idx) == s && HPROP(h, idx) == q), "tombstones are skipped");
  __CPROVER_assert(IMPLIES(s >= 0, HSTART(h, idx) == old2new._base0.ptr_[s]), "the start vertex is renumbered through vertOld2New");
  __CPROVER_assert(IMPLIES(s >= 0, HPROP(h, idx) == (c.hasProp ? q : old2new._base0.ptr_[s])), "without properties the property vertex is the position vertex; with properties it is kept");
  __CPROVER_assert(HPAIR(h, idx) == pr, "pairing is not touched");
  __CPROVER_assert(IMPLIES(g != idx, HSTART(h, g) == gs && HPAIR(h, g) == gp && HPROP(h, g) == gq), "frame: other halfedges untouched");
}
#endif
