/* C01: "every index is in range, every vertex is referenced": SortGeometry removes what the edit operations tombstoned.
 * The cut is by code: SortFaces / SortVerts sort by Morton code and drop everything from the first kNoCode on.  So
 * (a) a removed triangle must be flagged kNoCode, a live one must get a real code (below kNoCode);
 * (b) MortonCode must flag a NaN (tombstoned) position with kNoCode and give every other position a real code. */
#include "halfedge_spec.h"
#ifdef SPEC_CONTRACTS
struct linalg_vec_double_3; struct Box;
unsigned ghost_code; int ghost_code_calls;
unsigned stub_MortonCode(struct linalg_vec_double_3 p, struct Box b);
#endif
#ifdef SPEC_HARNESS
/* Collider::MortonCode: "the Morton code only uses the first 30 of 32 bits" (three 10-bit coordinates interleaved;
 * SpreadBits3 is unit c14_overlap) */
unsigned stub_MortonCode(struct linalg_vec_double_3 p, struct Box b) { ghost_code_calls++; return ghost_code; }
void h_faceflags(void) {
  struct Manifold_Impl impl;
  unsigned long nt = nondet_ulong(), nv = nondet_ulong();
  __CPROVER_assume(nt >= 1 && nt <= 300000000ul && nv >= 1 && nv <= 100000000ul);
  ALLOC_HALFEDGES(impl.halfedge_, 3 * nt);
  ALLOC_VIEW(impl.vertPos_._base0, struct linalg_vec_double_3, nv);
  struct Vec_Box_0 boxes; struct Vec_unsigned_int_0 codes;
  ALLOC_VIEW(boxes._base0, struct Box, nt); ALLOC_VIEW(codes._base0, unsigned, nt);
  int f = nondet_int(); __CPROVER_assume(0 <= f && (unsigned long)f < nt);
  unsigned long g = nondet_ulong(); __CPROVER_assume(g < nt);          /* ghost: any face */
  int p0 = HPAIR(&impl.halfedge_, 3 * f);
  /* C01 invariant at the slots read: a live triangle's start vertices are in range */
  __CPROVER_assume(p0 < 0 || (HSTART(&impl.halfedge_, 3 * f) >= 0 && (unsigned long)HSTART(&impl.halfedge_, 3 * f) < nv && HSTART(&impl.halfedge_, 3 * f + 1) >= 0 && (unsigned long)HSTART(&impl.halfedge_, 3 * f + 1) < nv && HSTART(&impl.halfedge_, 3 * f + 2) >= 0 && (unsigned long)HSTART(&impl.halfedge_, 3 * f + 2) < nv));
  ghost_code = nondet_uint(); __CPROVER_assume(ghost_code < (1u << 30)); ghost_code_calls = 0;
  unsigned code_g0 = codes._base0.ptr_[g]; struct Box box_g0 = boxes._base0.ptr_[g];
  struct FaceMorton_face_closure c; c.__this = &impl; c.faceBox = &boxes; c.faceMorton = &codes;
  HARNESS_END;
  SATISFIABLE(p0 < 0 && g == (unsigned long)f);
  FaceMorton_face(&c, f);
  __CPROVER_assert(IMPLIES(p0 < 0, codes._base0.ptr_[f] == 0xFFFFFFFFu && ghost_code_calls == 0), "a removed triangle is flagged kNoCode (it sorts behind every live triangle and is cut off)");
  __CPROVER_assert(IMPLIES(p0 >= 0, codes._base0.ptr_[f] == ghost_code && ghost_code_calls == 1), "a live triangle gets the Morton code of its centroid");
  __CPROVER_assert(IMPLIES(g != (unsigned long)f, codes._base0.ptr_[g] == code_g0 && __CPROVER_equal(boxes._base0.ptr_[g], box_g0)), "frame: no other face's code or box is written");
  __CPROVER_assert(IMPLIES(p0 < 0, __CPROVER_equal(boxes._base0.ptr_[f], box_g0) || g != (unsigned long)f), "a removed triangle's box is left as initialised");
  /* (b) */
  struct linalg_vec_double_3 pos; struct Box bb;
  ghost_code_calls = 0;
  unsigned m = Sort_MortonCode(pos, bb);
  __CPROVER_assert(IMPLIES(pos.x != pos.x, m == 0xFFFFFFFFu), "a tombstoned (NaN) position is flagged kNoCode");
  __CPROVER_assert(IMPLIES(pos.x == pos.x, m == ghost_code && m < 0xFFFFFFFFu), "every other position gets a real code, below kNoCode");
}
#endif
