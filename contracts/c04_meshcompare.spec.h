/* C04: "BatchBoolean serial numbers keep heap order deterministic under task_group" (csg_tree.cpp:32-42). */
#ifdef SPEC_CONTRACTS
unsigned long stub_NumVert(void* self);
#endif
#ifdef SPEC_HARNESS
static struct CsgLeafNode L[3]; static unsigned long NV[3];
unsigned long stub_NumVert(void* self) { return self == (void*)&L[0] ? NV[0] : self == (void*)&L[1] ? NV[1] : NV[2]; }
static struct MeshCompare cmp;
#define MC_LT(x, y) MeshCompare_call(&cmp, &(x), &(y))
void h_MeshCompare(void) {
  struct std_pair_std_shared_ptr_CsgLeafNode_uint64_t a, b, c;
  NV[0] = nondet_ulong(); NV[1] = nondet_ulong(); NV[2] = nondet_ulong();
  unsigned ia = nondet_uint(), ib = nondet_uint(), ic = nondet_uint(); __CPROVER_assume(ia < 3 && ib < 3 && ic < 3);
  a.first = &L[ia]; b.first = &L[ib]; c.first = &L[ic];   /* entries may share a node */
  ASSERT_STRICT_ORDER(MC_LT, a, b, c);
  __CPROVER_assert(IMPLIES(a.second != b.second, MC_LT(a, b) || MC_LT(b, a)), "entries with different serial numbers are never tied");
  __CPROVER_assert(IMPLIES(NV[ia] < NV[ib], MC_LT(a, b)), "vertex count is the primary key");
  __CPROVER_assert(IMPLIES(NV[ia] == NV[ib], MC_LT(a, b) == (a.second < b.second)), "the serial number breaks ties");
  HARNESS_END;
}
#endif
