/* C17: "Cube, Tetrahedron, Sphere, Cylinder ... return the solid described by their arguments ... and
 * invalid arguments give InvalidConstruction" -- Cylinder's argument handling; LevelSet's grid keys. */
#ifdef SPEC_CONTRACTS
int ghost_fell;
#undef REGION_FALLTHROUGH
#define REGION_FALLTHROUGH ghost_fell = 1
#endif
#ifdef SPEC_HARNESS
void h_Cylinder(void) {
  double h = nondet_double(), rl = nondet_double(), rh = nondet_double();
  int segs = nondet_int();
  _Bool center = nondet_bool();
  /* finite arguments here; NaN / infinite arguments are the subject of unit c17_guards (they must give Invalid()) */
  __CPROVER_assume(h == h && rl == rl && rh == rh && h != INFINITY && h != -INFINITY && rl != INFINITY && rl != -INFINITY && rh != INFINITY && rh != -INFINITY);
  ghost_fell = 0;
  HARNESS_END;
  (void)Cylinder_head(h, rl, rh, segs, center);
  _Bool invalid = h <= 0.0 || rl < 0.0 || (rl == 0.0 && rh <= 0.0);
  __CPROVER_assert(invalid == (ghost_rec_Invalid_calls == 1 && !ghost_fell), "non-positive height, negative low radius or a cone without a base give Invalid()");
  if (!invalid && rl == 0.0) {
    /* "Cone with apex at bottom": whatever recipe is used, the recorded calls must place a cone of height h and base
     * radius rh with its apex down into z in [0,h] (or [-h/2,h/2] when centered).  Semantics of the recorded API calls
     * (trusted): Cylinder(h',rl',rh',n,c') spans z in [c' ? -h'/2 : 0, c' ? h'/2 : h'] with radius rl' at the bottom and
     * rh' at the top; Mirror((0,0,nz)) negates z; Translate(t) adds t. */
    __CPROVER_assert(!ghost_fell && ghost_rec_Cylinder_calls == 1 && ghost_rec_Mirror_calls == 1 && ghost_rec_Translate_calls <= 1, "one cone, one mirror, at most one shift");
    double h1 = ghost_rec_Cylinder_height;
    double lo = ghost_rec_Cylinder_center ? -h1 / 2.0 : 0.0, hi = ghost_rec_Cylinder_center ? h1 / 2.0 : h1;
    __CPROVER_assert(h1 == h && ghost_rec_Cylinder_radiusLow == rh && ghost_rec_Cylinder_radiusHigh == 0.0 && ghost_rec_Cylinder_circularSegments == segs,
                     "the cone has the requested height, base radius rh, a point at the other end, and the requested segment count");
    __CPROVER_assert(ghost_rec_Mirror_arg0.x == 0.0 && ghost_rec_Mirror_arg0.y == 0.0 && ghost_rec_Mirror_arg0.z != 0.0, "mirrored in z (apex goes to the bottom)");
    double tz = ghost_rec_Translate_calls ? ghost_rec_Translate_arg0.z : 0.0;
    __CPROVER_assert(IMPLIES(ghost_rec_Translate_calls, ghost_rec_Translate_arg0.x == 0.0 && ghost_rec_Translate_arg0.y == 0.0), "shift along z only");
    double zlo = -hi + tz, zhi = -lo + tz;
    __CPROVER_assert(IMPLIES(h < 1e300 && h > 1e-300 /* halving is exact away from the subnormal range */, zlo == (center ? -h / 2.0 : 0.0) && zhi == (center ? h / 2.0 : h)), "the result spans z in [0,h], or [-h/2,h/2] when centered");
    __CPROVER_assert(ghost_rec_AsOriginal_calls == 1, "the result is a fresh original");
  }
  __CPROVER_assert(IMPLIES(!invalid && rl != 0.0, ghost_fell && ghost_rec_Invalid_calls == 0), "valid frustum arguments proceed to the extrusion");
}
/* LevelSet grid keys: "EncodeIndex / DecodeIndex": decode(encode(p)) == p, fields do not overlap */
void h_sdf_index(void) {
  struct linalg_vec_int_4 p;
  struct linalg_vec_int_3 pw;
  __CPROVER_assume(1 <= pw.x && pw.x <= 21 && 1 <= pw.y && pw.y <= 21 && 1 <= pw.z && pw.z <= 21);   /* ComputeGridPow: 3 axes share 63 bits with the parity bit */
  __CPROVER_assume(0 <= p.x && p.x < (1 << pw.x) && 0 <= p.y && p.y < (1 << pw.y) && 0 <= p.z && p.z < (1 << pw.z) && (p.w == 0 || p.w == 1));
  HARNESS_END;
  unsigned long key = EncodeIndex(p, pw);
  struct linalg_vec_int_4 q = DecodeIndex(key, pw);
  __CPROVER_assert(q.x == p.x && q.y == p.y && q.z == p.z && q.w == p.w, "DecodeIndex inverts EncodeIndex on in-range grid positions");
  struct linalg_vec_int_4 p2;
  __CPROVER_assume(0 <= p2.x && p2.x < (1 << pw.x) && 0 <= p2.y && p2.y < (1 << pw.y) && 0 <= p2.z && p2.z < (1 << pw.z) && (p2.w == 0 || p2.w == 1));
  __CPROVER_assert((EncodeIndex(p2, pw) == key) == (p2.x == p.x && p2.y == p.y && p2.z == p.z && p2.w == p.w), "distinct grid positions get distinct keys");
}
#endif
