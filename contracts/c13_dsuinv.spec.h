/* C13: "Concurrent unite/find on the union-find structure yields the partition a sequential run over the
 * same pairs yields" -- the sequential half, for every size: the structure against an abstract partition.
 * Abstract view: ghost array REP[i] = representative (root) of i's class.  Representation invariant, for
 * every i < n (a real quantifier: the loops follow parent chains of unbounded length):
 *   bit 63 of the entry clear, parent(i) < n, a non-root has strictly smaller rank than its parent
 *   (=> acyclic, find terminates), REP[i] < n is a root, REP[parent(i)] == REP[i], a root represents itself. */
#ifdef SPEC_CONTRACTS
unsigned int *REP;              /* ghost: representative of each element */
unsigned long *OLD;             /* ghost: entry values before the call */
#ifdef GN_FIXED
#define GN ((unsigned long)GN_FIXED)   /* bounded falsification run: small fixed size, quantifiers expand on SAT */
#else
unsigned long GN;               /* ghost: number of elements */
#endif
#define D_(i) (self->mData._data[i]._v)
#define PAR_(i) ((unsigned int)D_(i))
#define RANK_(i) (((unsigned int)(D_(i) >> 32)) & 2147483647u)
#define INV_AT(i) ((D_(i) >> 63) == 0 && PAR_(i) < GN && (PAR_(i) != (i) ? RANK_(i) < RANK_(PAR_(i)) : 1) && \
                   REP[i] < GN && PAR_(REP[i]) == REP[i] && REP[PAR_(i)] == REP[i] && (PAR_(i) == (i) ? REP[i] == (i) : 1))
#define INV_ALL __CPROVER_forall { unsigned long qi; (qi < GN) ==> INV_AT(qi) }
#define FRAME_ALL __CPROVER_forall { unsigned long qj; (qj < GN) ==> ((D_(qj) >> 32) == (OLD[qj] >> 32) && ((PAR_(qj) == qj) == ((unsigned int)OLD[qj] == qj))) }
#define LOOPSPEC_DisjointSets_findImpl_0 \
  __CPROVER_assigns(id, __CPROVER_object_whole(self->mData._data)) \
  __CPROVER_loop_invariant(id < GN && REP[id] == REP[__CPROVER_loop_entry(id)] && INV_ALL && FRAME_ALL) \
  __CPROVER_decreases(2147483647u - RANK_(id))
/* the partition after unite(a,b): classes of a and b merged under the returned root */
#define NEWREP(i) ((REP[i] == ghost_ra || REP[i] == ghost_rb) ? ghost_r : REP[i])
#define INV2_AT(i) ((D_(i) >> 63) == 0 && PAR_(i) < GN && (PAR_(i) != (i) ? RANK_(i) < RANK_(PAR_(i)) : 1) && \
                   NEWREP(i) < GN && PAR_(NEWREP(i)) == NEWREP(i) && NEWREP(PAR_(i)) == NEWREP(i) && (PAR_(i) == (i) ? NEWREP(i) == (i) : 1))
#define INV2_ALL __CPROVER_forall { unsigned long qm; (qm < GN) ==> INV2_AT(qm) }
unsigned int ghost_ra, ghost_rb, ghost_r;
/* findImpl's contract, proved by job findImpl on the real body; jobs find/same/unite use it at the call sites
 * (assume-guarantee: precondition asserted, array havocked, postcondition assumed) */
struct DisjointSets;
unsigned int stub_findImpl(struct DisjointSets* self, unsigned int id);
#endif
#ifdef SPEC_HARNESS
unsigned int stub_findImpl(struct DisjointSets* self, unsigned int id) {
  __CPROVER_assert(id < GN, "findImpl precondition: id is an element");
  __CPROVER_assert(INV_ALL, "findImpl precondition: representation invariant");
  unsigned long *snap = malloc(self->mData._size * sizeof(unsigned long));
  __CPROVER_assume(snap != 0);
  __CPROVER_assume(__CPROVER_forall { unsigned long qs; (qs < GN) ==> snap[qs] == D_(qs) });
  __CPROVER_havoc_object(self->mData._data);
  __CPROVER_assume(INV_ALL);
  __CPROVER_assume(__CPROVER_forall { unsigned long qt; (qt < GN) ==> ((D_(qt) >> 32) == (snap[qt] >> 32) && ((PAR_(qt) == qt) == ((unsigned int)snap[qt] == qt))) });
  return REP[id];
}
#endif
#ifdef SPEC_HARNESS
static void dsu_setup(struct DisjointSets* self) {
#ifndef GN_FIXED
  GN = nondet_ulong();
  __CPROVER_assume(GN >= 1 && GN <= 4294967295ul);     /* constructor asserts size <= UINT32_MAX */
#endif
  self->mData._size = GN; self->mData._cap = GN;
  self->mData._data = malloc(self->mData._size * sizeof(struct std_atomic_unsigned_long));
  REP = malloc(self->mData._size * sizeof(unsigned int));
  OLD = malloc(self->mData._size * sizeof(unsigned long));
  __CPROVER_assume(self->mData._data != 0 && REP != 0 && OLD != 0);
  __CPROVER_assume(INV_ALL);
  __CPROVER_assume(__CPROVER_forall { unsigned long qk; (qk < GN) ==> OLD[qk] == D_(qk) });
}
void h_findimpl(void) {
  struct DisjointSets ds; struct DisjointSets* self = &ds;
  dsu_setup(self);
  unsigned int id = nondet_uint();
  __CPROVER_assume(id < GN);
  HARNESS_END;
  unsigned int r = DisjointSets_findImpl(self, id);
  __CPROVER_assert(r == REP[id], "find returns the representative of id's class");
  __CPROVER_assert(INV_ALL, "representation invariant preserved with the same partition");
  __CPROVER_assert(FRAME_ALL, "ranks and the set of roots unchanged (only non-root parents are shortened)");
}
void h_find(void) {
  struct DisjointSets ds; struct DisjointSets* self = &ds;
  dsu_setup(self);
  unsigned long id = nondet_ulong();
  __CPROVER_assume(id < GN);
  HARNESS_END;
  unsigned long r = DisjointSets_find(self, id);
  __CPROVER_assert(r == REP[id], "find(id) is the representative of id's class");
  __CPROVER_assert(INV_ALL, "representation invariant preserved with the same partition");
}
void h_same(void) {
  struct DisjointSets ds; struct DisjointSets* self = &ds;
  dsu_setup(self);
  unsigned long a = nondet_ulong(), b = nondet_ulong();
  __CPROVER_assume(a < GN && b < GN);
  HARNESS_END;
  _Bool r = DisjointSets_same(self, a, b);
  __CPROVER_assert(r == (REP[a] == REP[b]), "same(a,b) iff a and b are in one class");
  __CPROVER_assert(INV_ALL, "representation invariant preserved with the same partition");
}
void h_unite(void) {
  struct DisjointSets ds; struct DisjointSets* self = &ds;
  dsu_setup(self);
  unsigned long a = nondet_ulong(), b = nondet_ulong();
  __CPROVER_assume(a < GN && b < GN);
  ghost_ra = REP[a]; ghost_rb = REP[b];
  /* ranks stay below 2^31-1: a rank-r root has at least 2^r members and there are < 2^32 elements (counting argument, not proved here) */
  __CPROVER_assume(__CPROVER_forall { unsigned long qr; (qr < GN) ==> RANK_(qr) < 64 });
  HARNESS_END;
  unsigned long r = DisjointSets_unite(self, a, b);
  ghost_r = (unsigned int)r;
  __CPROVER_assert(r == ghost_ra || r == ghost_rb, "unite returns one of the two old representatives");
  __CPROVER_assert(r < GN && PAR_(r) == r, "the returned element is a root");
  __CPROVER_assert(INV2_ALL, "after unite the structure represents exactly the partition with the classes of a and b merged (every other class unchanged)");
}
#endif
