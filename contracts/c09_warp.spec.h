/* C09: "non-finite coordinates ... give an error Status, never undefined behaviour"; C01: "either reports a
 * non-NoError Status and is empty, or ... every index is in range ... all numbers are finite".
 * Typestate over the control skeleton of WarpBatch: ghost_unchecked is raised when user code has written the
 * vertex positions and lowered only by a successful IsFinite() or by MakeEmpty().  SortGeometry's precondition
 * (taken from sort.cpp SortVerts: NaN marks a vertex as removed) is that no unchecked user data is present. */
#ifdef SPEC_CONTRACTS
int ghost_unchecked, ghost_made_empty, ghost_status, ghost_sorted_unchecked, ghost_bbox_unchecked;
/* CalculateBBox (properties.cpp) empties the object with Error::NoError when the box is not finite ("decimated out of
 * existence"): on unchecked user data that turns an error into an empty-but-valid solid, so it has the same precondition */
void stub_CalculateBBox(void) { if (ghost_unchecked) ghost_bbox_unchecked = 1; }
void stub_MakeEmpty(struct Manifold_Impl *self, int err) { ghost_made_empty = 1; ghost_status = err; ghost_unchecked = 0; }
_Bool stub_IsFinite(void) { _Bool b = nondet_bool(); if (b) ghost_unchecked = 0; return b; }
void stub_SortGeometry(void) { if (ghost_unchecked) ghost_sorted_unchecked = 1; }
/* the dropped statement #0 is the call of the user's warp function on vertPos_ */
#define DROPPED_STMT_Impl_WarpBatch_0 (ghost_unchecked = 1)
#endif
#ifdef SPEC_HARNESS
void h_WarpBatch(void) {
  struct Manifold_Impl impl;
  struct std_function_opaque f;
  ghost_unchecked = 0; ghost_made_empty = 0; ghost_status = -1; ghost_sorted_unchecked = 0; ghost_bbox_unchecked = 0;
  HARNESS_END;
  Impl_WarpBatch(&impl, f);
  __CPROVER_assert(!ghost_sorted_unchecked, "SortGeometry never runs on warped positions that have not passed IsFinite() (NaN would be taken for a tombstone)");
  __CPROVER_assert(!ghost_bbox_unchecked, "CalculateBBox never runs on warped positions that have not passed IsFinite() (it would empty the object with Status NoError: an error silently turned into an empty-but-valid solid)");
  __CPROVER_assert(!ghost_unchecked, "on return the warped positions were checked finite or the object was emptied");
  __CPROVER_assert(IMPLIES(ghost_made_empty, ghost_status == ENUM_Manifold_Error_NonFiniteVertex), "a non-finite warp result is reported as NonFiniteVertex");
}
#endif
