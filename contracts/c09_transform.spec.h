/* C09: "non-finite numbers ... numeric argument ... an empty Manifold carrying a specific Error; a non-NoError
 * Status survives every subsequent operation".  Translate/Rotate/Scale/Mirror/Transform are evaluated by
 * Impl::Transform; before it touches any geometry: an errored operand's status is carried over, and a matrix with a
 * NaN or infinite entry gives MakeEmpty(NonFiniteVertex). */
#ifdef SPEC_CONTRACTS
struct Manifold_Impl;
struct Manifold_Impl stub_Impl_default(void);
void stub_MakeEmpty(struct Manifold_Impl *self, int err);
int stub_policy(void);
int ghost_fell, ghost_made_empty, ghost_empty_status;
#undef REGION_FALLTHROUGH
#define REGION_FALLTHROUGH (ghost_fell = 1)
#endif
#ifdef SPEC_HARNESS
struct Manifold_Impl stub_Impl_default(void) { struct Manifold_Impl r; r.status_ = 0; return r; }
void stub_MakeEmpty(struct Manifold_Impl *self, int err) { ghost_made_empty++; ghost_empty_status = err; self->status_ = err; }
int stub_policy(void) { return nondet_int(); }
#define FIN(x) ((x) == (x) && (x) != INFINITY && (x) != -INFINITY)
#define FINV(v) (FIN((v).x) && FIN((v).y) && FIN((v).z))
void h_transform_head(void) {
  struct Manifold_Impl self; struct linalg_mat_double_3_4 m;
  ghost_fell = 0; ghost_made_empty = 0; ghost_empty_status = -1;
  int st = self.status_;
  HARNESS_END;
  SATISFIABLE(st == 0 && !FIN(m.w.y));
  struct Manifold_Impl r = Impl_Transform_head(&self, &m);
  __CPROVER_assert(IMPLIES(st != 0, !ghost_fell && r.status_ == st), "an errored operand's status is the result's status (no geometry is touched)");
  _Bool finite = FINV(m.x) && FINV(m.y) && FINV(m.z) && FINV(m.w);
  __CPROVER_assert(IMPLIES(st == 0 && !finite, !ghost_fell && ghost_made_empty == 1 && ghost_empty_status == ENUM_Manifold_Error_NonFiniteVertex && r.status_ == ENUM_Manifold_Error_NonFiniteVertex),
                   "a transform with a NaN or infinite entry gives an empty result with NonFiniteVertex");
}
#endif
