/* C08: "the same tangent on every directed edge (so Refine gives the same surface before and
 * after the trip)" / C07: each exported triangle names its source face -- for the exporter this
 * means: corner (tri,i) of the export is internal halfedge 3*triNew2Old[tri]+i in EVERY channel. */
#include "halfedge_spec.h"
#ifdef SPEC_CONTRACTS
int *ghost_perm;   /* exported triNew2Old */
int ghost_T, ghost_I;
unsigned long ghost_nan_free_k;
#undef EXPORT_LOCAL
#define EXPORT_LOCAL(x) ghost_perm = (x)._data
void stub_stable_sort(void) {}
#define ELEMINV_perm(x) (0 <= (x) && (x) < numTri)
#define EXP_O (triNew2Old._data[ghost_T])
#define TAN(k) (impl->halfedgeTangent_._base0.ptr_[k])
/* equal, or the source is NaN (== cannot express bit equality of NaNs; valid tangents are NaN-free) */
#define EQN(a, b) ((b) != (b) || (a) == (b))
#define TRF(O) (triRef.ptr_[O])
#define CORNER_OK(outp, O)                                                                                      \
  ((outp).triVerts._data[3 * ghost_T + ghost_I] == (unsigned long)HSTART(&impl->halfedge_, 3 * (O) + ghost_I) &&  \
   (outp).faceID._data[ghost_T] == (unsigned long)(TRF(O).faceID >= 0 ? TRF(O).faceID : TRF(O).coplanarID) &&      \
   (!hasTangents ||                                                                                             \
    (EQN((outp).halfedgeTangent._data[4 * (3 * ghost_T + ghost_I) + 0], TAN(3 * (O) + ghost_I).x) &&               \
     EQN((outp).halfedgeTangent._data[4 * (3 * ghost_T + ghost_I) + 1], TAN(3 * (O) + ghost_I).y) &&               \
     EQN((outp).halfedgeTangent._data[4 * (3 * ghost_T + ghost_I) + 2], TAN(3 * (O) + ghost_I).z) &&               \
     EQN((outp).halfedgeTangent._data[4 * (3 * ghost_T + ghost_I) + 3], TAN(3 * (O) + ghost_I).w))))
/* addRun (the local closure that appends to the run table) is not under contract here: its calls go to a no-op stub */
static inline void stub_addRun(void) {}
#define LOOPSPEC_GetMeshGL64_0                                                                                  \
  __CPROVER_assigns(tri, lastID, __CPROVER_object_whole(out.triVerts._data), __CPROVER_object_whole(out.faceID._data), \
                    __CPROVER_object_whole(out.halfedgeTangent._data) LOOPTMPS_GetMeshGL64_0)                   \
  __CPROVER_loop_invariant(0 <= tri && tri <= numTri &&                                                          \
      (ghost_T < tri ? (0 <= EXP_O && EXP_O < numTri && CORNER_OK(out, EXP_O)) : 1))                            \
  __CPROVER_decreases(numTri - tri)
#endif
#ifdef SPEC_HARNESS
void h_export(void) {
  struct Manifold_Impl impl;
  unsigned long nt = nondet_ulong();
  __CPROVER_assume(nt >= 1 && nt <= 100000000ul);
  ALLOC_HALFEDGES(impl.halfedge_, 3 * nt);
  ALLOC_VIEW(impl.meshRelation_.triRef._base0, struct TriRef, nt);
  if (nondet_bool()) { ALLOC_VIEW(impl.halfedgeTangent_._base0, struct linalg_vec_double_4, 3 * nt); }
  else { impl.halfedgeTangent_._base0.ptr_ = 0; impl.halfedgeTangent_._base0.size_ = 0; }
  impl.vertPos_._base0.size_ = nondet_ulong(); impl.properties_._base0.size_ = nondet_ulong();
  __CPROVER_assume(impl.numProp_ >= 0 && impl.numProp_ < 64 && impl.vertPos_._base0.size_ <= (1ul << 30) && impl.properties_._base0.size_ <= (1ul << 30));
  ghost_T = nondet_int(); ghost_I = nondet_int();
  __CPROVER_assume(0 <= ghost_T && (unsigned long)ghost_T < nt && 0 <= ghost_I && ghost_I < 3);
  /* tangents are NaN-free on a valid Impl (ValidTangents / IsFinite gates), so == is bit equality up to -0 */
  if (impl.halfedgeTangent_._base0.size_ != 0) {
    unsigned long k = nondet_ulong(); __CPROVER_assume(k < 3 * nt);
    struct linalg_vec_double_4 t = impl.halfedgeTangent_._base0.ptr_[k];
    __CPROVER_assume(t.x == t.x && t.y == t.y && t.z == t.z && t.w == t.w);
    ghost_nan_free_k = k;
  }
  HARNESS_END;
  struct MeshGLP_double_unsigned_long out = GetMeshGL64(&impl, -1);
  int O = ghost_perm[ghost_T];
  struct Manifold_Impl *implp = &impl;
  _Bool hasT = impl.halfedgeTangent_._base0.size_ == 3 * nt;
  __CPROVER_assert(out.triVerts._size == 3 * nt && out.faceID._size == nt, "one exported triangle per internal triangle");
  __CPROVER_assert(0 <= O && (unsigned long)O < nt, "triNew2Old names a triangle");
  __CPROVER_assert(out.triVerts._data[3 * ghost_T + ghost_I] == (unsigned long)HSTART(&impl.halfedge_, 3 * O + ghost_I), "corner start vertex comes from internal halfedge 3*old+i");
  { struct TriRef r = impl.meshRelation_.triRef._base0.ptr_[O];
    __CPROVER_assert(out.faceID._data[ghost_T] == (unsigned long)(r.faceID >= 0 ? r.faceID : r.coplanarID), "face ID of the same source triangle (coplanar grouping when none given)"); }
  if (hasT) {
    __CPROVER_assert(out.halfedgeTangent._size == 12 * nt, "four tangent components per exported halfedge");
    unsigned long src = 3 * (unsigned long)O + ghost_I;
    if (src == ghost_nan_free_k) {
      struct linalg_vec_double_4 t = impl.halfedgeTangent_._base0.ptr_[src];
      unsigned long d = 4 * (3 * (unsigned long)ghost_T + ghost_I);
      __CPROVER_assert(out.halfedgeTangent._data[d] == t.x && out.halfedgeTangent._data[d + 1] == t.y && out.halfedgeTangent._data[d + 2] == t.z && out.halfedgeTangent._data[d + 3] == t.w,
                       "the tangent exported at corner (tri,i) is the tangent of internal halfedge 3*old+i");
    }
  }
}
#endif
