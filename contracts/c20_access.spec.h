/* C20: "The C binding is a faithful ... image of the C++ API": the read accessors of the container handles return the
 * length / element / field of the C++ object behind the handle that their name says. */
#ifdef SPEC_HARNESS
#define NUMV(MESH, T) do { \
  MESH.numProp = 3; __CPROVER_assert((unsigned long)T##_num_vert((void*)&MESH) == MESH.vertProperties._size / 3 && (unsigned long)T##_num_prop((void*)&MESH) == 3, #T "_num_vert / _num_prop: vertProperties.size() / numProp, numProp (3 channels)"); \
  MESH.numProp = 7; __CPROVER_assert((unsigned long)T##_num_vert((void*)&MESH) == MESH.vertProperties._size / 7 && (unsigned long)T##_num_prop((void*)&MESH) == 7, #T "_num_vert / _num_prop (7 channels)"); \
  __CPROVER_assert((unsigned long)T##_num_tri((void*)&MESH) == MESH.triVerts._size / 3, #T "_num_tri: triVerts.size() / 3"); \
  __CPROVER_assert((unsigned long)T##_num_run((void*)&MESH) == MESH.runOriginalID._size, #T "_num_run: runOriginalID.size()"); \
  __CPROVER_assert(T##_tolerance((void*)&MESH) == MESH.tolerance, #T "_tolerance: the tolerance field"); } while (0)
void h_accessors(void) {
  /* simple polygon: 4 points, symbolic length <= 4 */
  struct linalg_vec_double_2 pts[4]; struct std_vector_linalg_vec_double_2 sp = { pts, nondet_ulong(), 4 };
  __CPROVER_assume(sp._size <= 4);
  unsigned long i = nondet_ulong(); __CPROVER_assume(i < sp._size);
  for (int k = 0; k < 4; k++) __CPROVER_assume(pts[k].x == pts[k].x && pts[k].y == pts[k].y);
  /* polygon set: 2 contours */
  struct linalg_vec_double_2 q0[3], q1[3]; struct std_vector_linalg_vec_double_2 cont[2] = { { q0, nondet_ulong(), 3 }, { q1, nondet_ulong(), 3 } };
  __CPROVER_assume(cont[0]._size <= 3 && cont[1]._size <= 3);
  for (int k = 0; k < 3; k++) __CPROVER_assume(q0[k].x == q0[k].x && q0[k].y == q0[k].y && q1[k].x == q1[k].x && q1[k].y == q1[k].y);
  struct std_vector_std_vector_linalg_vec_double_2 ps = { cont, nondet_ulong(), 2 };
  __CPROVER_assume(ps._size <= 2);
  unsigned long c = nondet_ulong(), j = nondet_ulong(); __CPROVER_assume(c < ps._size && j < cont[c]._size);
  struct std_vector_RayHit hits; struct std_vector_linalg_vec_int_3 tris;
  struct MeshGLP_float_unsigned_int m32; struct MeshGLP_double_unsigned_long m64;
  __CPROVER_assume(m32.tolerance == m32.tolerance && m64.tolerance == m64.tolerance);
  __CPROVER_assume(m32.vertProperties._size <= 0xffffffffu && m32.triVerts._size <= 0xffffffffu && m32.runOriginalID._size <= 0xffffffffu);   /* MeshGL counts are 32-bit: larger meshes use MeshGL64 */
  HARNESS_END;
  __CPROVER_assert(manifold_simple_polygon_length((void*)&sp) == sp._size, "simple_polygon_length: the number of points");
  struct ManifoldVec2 p = manifold_simple_polygon_get_point((void*)&sp, i);
  __CPROVER_assert(p.x == pts[i].x && p.y == pts[i].y, "simple_polygon_get_point: point idx, x to x and y to y");
  __CPROVER_assert(manifold_polygons_length((void*)&ps) == ps._size, "polygons_length: the number of contours");
  __CPROVER_assert(manifold_polygons_simple_length((void*)&ps, c) == cont[c]._size, "polygons_simple_length: the number of points of contour idx");
  struct ManifoldVec2 r = manifold_polygons_get_point((void*)&ps, c, j);
  struct linalg_vec_double_2 *want = c == 0 ? &q0[j] : &q1[j];
  __CPROVER_assert(r.x == want->x && r.y == want->y, "polygons_get_point: point pt_idx of contour simple_idx");
  __CPROVER_assert(manifold_ray_hit_vec_length((void*)&hits) == hits._size, "ray_hit_vec_length: the number of hits");
  __CPROVER_assert(manifold_triangulation_num_tri((void*)&tris) == tris._size, "triangulation_num_tri: the number of triangles");
  NUMV(m32, manifold_meshgl);
  NUMV(m64, manifold_meshgl64);
}
#endif
