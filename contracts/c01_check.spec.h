/* C01: "every directed edge occurs exactly once and is matched by exactly one opposite edge, no triangle
 * repeats a vertex" is what IsManifold tests halfedge by halfedge; the gate must accept exactly that. */
#include "halfedge_spec.h"
#ifdef SPEC_HARNESS
void h_CheckHalfedges(void) {
  struct Halfedges h;
  struct CheckHalfedges c;
  unsigned long nt = nondet_ulong();
  __CPROVER_assume(nt >= 1 && nt <= 100000000ul);
  unsigned long n = 3 * nt;
  ALLOC_HALFEDGES(h, 3 * nt);
  c.halfedges = &h;
  unsigned long e = nondet_ulong();
  __CPROVER_assume(e < n);
  int pr = HPAIR(&h, e);
  /* pairs are produced by CreateHalfedges / the edit primitives: -1 or an index (never user data) */
  __CPROVER_assume(pr == -1 || (0 <= pr && (unsigned long)pr < n));
  HARNESS_END;
  _Bool ok = CheckHalfedges_call(&c, e);
  int g = (int)e;
  __CPROVER_assert(IMPLIES(ok, HE_FULL(&h, n, g)), "soundness of the gate: an accepted halfedge satisfies the representation invariant");
  __CPROVER_assert(IMPLIES(ok && pr == -1, HSTART(&h, g) == -1 && HEND(&h, g) == -1), "a removed halfedge is accepted only as a full tombstone");
  _Bool live_ok = pr >= 0 && HPAIR(&h, pr) == g && HSTART(&h, g) != HEND(&h, g) && HSTART(&h, g) == HEND(&h, pr) && HEND(&h, g) == HSTART(&h, pr) &&
                  HSTART(&h, NEXT3(g)) != -1 && HSTART(&h, NEXT3(NEXT3(g))) != -1;
  __CPROVER_assert(IMPLIES(live_ok, ok), "completeness: a live halfedge with a reciprocal, oppositely directed partner and three distinct-ended vertices is accepted");
}
void h_cycle(void) {
  int e = nondet_int();
  __CPROVER_assume(0 <= e && e < 2000000000);
  int n1 = NextHalfedge(e), n2 = NextHalfedge(n1), n3 = NextHalfedge(n2);
  __CPROVER_assert(n1 / 3 == e / 3 && n2 / 3 == e / 3 && n3 == e && n1 != e && n2 != e && n1 != n2, "NextHalfedge cycles through the three halfedges of the same triangle");
  __CPROVER_assert(PrevHalfedge(NextHalfedge(e)) == e && NextHalfedge(PrevHalfedge(e)) == e, "PrevHalfedge inverts NextHalfedge");
  __CPROVER_assert(NextHalfedge(e) == NEXT3(e) && PrevHalfedge(e) == PREV3(e), "spec macros NEXT3 / PREV3 agree with the code");
  HARNESS_END;
}
#endif
