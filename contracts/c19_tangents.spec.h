/* C19 / C09: Refine on user-supplied tangents must reject inconsistent quad marks with InvalidTangents
 * instead of subdividing the two sides of one edge differently (stranded vertices, non-manifold result). */
#include "halfedge_spec.h"
#ifdef SPEC_HARNESS
#define MARK(k) (impl.halfedgeTangent_._base0.ptr_[k].w == kInsideQuad)
void h_ValidTangents(void) {
  struct Manifold_Impl impl;
  struct ValidTangents_body_closure c;
  unsigned long nt = nondet_ulong();
  __CPROVER_assume(nt >= 1 && nt <= 100000000ul);
  ALLOC_HALFEDGES(impl.halfedge_, 3 * nt);
  ALLOC_VIEW(impl.halfedgeTangent_._base0, struct linalg_vec_double_4, 3 * nt);
  c.__this = &impl;
  unsigned long e = nondet_ulong();
  __CPROVER_assume(e < 3 * nt);
  int pr = HPAIR(&impl.halfedge_, e);
  __CPROVER_assume(0 <= pr && (unsigned long)pr < 3 * nt);   /* a valid (manifold) mesh reaches the gate */
  HARNESS_END;
  _Bool ok = ValidTangents_body(&c, e);
  __CPROVER_assert(IMPLIES(ok, MARK(e) == MARK(pr)), "accepted only if both sides of the edge agree on the inside-quad mark");
  __CPROVER_assert(IMPLIES(ok && MARK(e), !MARK(NEXT3(e)) && !MARK(PREV3(e)) && !MARK(NEXT3(pr)) && !MARK(PREV3(pr))), "a marked edge has no marked neighbour: missing tangents cannot be adjacent");
  __CPROVER_assert(IMPLIES(!MARK(e) && !MARK(pr), ok), "an unmarked edge with an unmarked partner is accepted");
}
#endif
