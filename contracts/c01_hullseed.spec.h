/* C01: "no triangle repeats a vertex", "every directed edge occurs exactly once" -- for Hull of a point cloud that lies
 * on a line, the initial (degenerate) tetrahedron is built by MeshBuilder::setup(a, b, c, d) from four vertex indices:
 * its four faces are the triples of {a, b, c, d}, so the indices must be pairwise distinct, and they index the point
 * array, so they must be in range.  Call-site facts: more than 4 points (the <= 4 case returned earlier) and two
 * different in-range extreme points. */
#ifdef SPEC_CONTRACTS
int ghost_fell;
#undef REGION_FALLTHROUGH
#define REGION_FALLTHROUGH (ghost_fell = 1)
#endif
#ifdef SPEC_HARNESS
void h_line_fallback(void) {
  struct QuickHull qh; double maxD = nondet_double();
  struct std_pair_unsigned_long_unsigned_long sel;
  unsigned long count = nondet_ulong();
  __CPROVER_assume(count >= 5 && count <= 2000000000ul);
  __CPROVER_assume(sel.first < count && sel.second < count && sel.first != sel.second);
  ghost_rec_setup_calls = 0; ghost_fell = 0;
  HARNESS_END;
  SATISFIABLE(maxD == qh.epsilonSquared && sel.first == 1 && sel.second == 2);
  QH_line_fallback(&qh, maxD, sel);
  if (maxD == qh.epsilonSquared) {
    int a = ghost_rec_setup_a, b = ghost_rec_setup_b, c = ghost_rec_setup_c, d = ghost_rec_setup_d;
    __CPROVER_assert(ghost_rec_setup_calls == 1 && !ghost_fell && ghost_rec_setup_self == (void*)&qh.mesh, "a cloud on a line gets exactly one degenerate tetrahedron");
    __CPROVER_assert(a != b && a != c && a != d && b != c && b != d && c != d, "the four vertices of the initial tetrahedron are pairwise distinct (no face repeats a vertex)");
    __CPROVER_assert(a >= 0 && b >= 0 && c >= 0 && d >= 0 && (unsigned long)a < count && (unsigned long)b < count && (unsigned long)c < count && (unsigned long)d < count, "they index the point array");
    __CPROVER_assert((unsigned long)a == sel.first && (unsigned long)b == sel.second, "the two extreme points are kept");
  } else {
    __CPROVER_assert(ghost_rec_setup_calls == 0 && ghost_fell, "otherwise the general construction continues");
  }
}
#endif
