/* C09: "A non-NoError Status survives every subsequent operation that consumes the object (like NaN), so an
 * error is never silently turned into an empty-but-valid solid." */
#ifdef SPEC_CONTRACTS
struct Manifold_Impl ghost_implA, ghost_implB;
void *ghost_mA;
static inline void *stub_GetCsgLeafNode(void *self) { return self; }
static inline struct Manifold_Impl *stub_GetImpl(void *self) { return self == ghost_mA ? &ghost_implA : &ghost_implB; }
#define RESET() do { ghost_rec_PropagateStatus_calls = 0; ghost_rec_PropagateStatus_status = -1; } while (0)
#define CHECK1(name) __CPROVER_assert(IMPLIES(ghost_implA.status_ != ENUM_Manifold_Error_NoError, ghost_rec_PropagateStatus_calls == 1 && ghost_rec_PropagateStatus_status == ghost_implA.status_), name ": an errored operand is propagated, with its own status")
#endif
#ifdef SPEC_HARNESS
void h_propagate(void) {
  struct Manifold A, B;
  struct std_function_opaque fn;
  double d = nondet_double();
  int i = nondet_int(), j = nondet_int();
  ghost_mA = &A;
  ghost_implA.status_ = nondet_int(); ghost_implB.status_ = nondet_int();   /* globals are zero-initialised: make the statuses arbitrary */
  __CPROVER_assume(0 <= ghost_implA.status_ && ghost_implA.status_ < ENUMCOUNT_Manifold_Error && 0 <= ghost_implB.status_ && ghost_implB.status_ < ENUMCOUNT_Manifold_Error);
  HARNESS_END;
  SATISFIABLE(ghost_implA.status_ != 0);
  SATISFIABLE(ghost_implA.status_ == 0 && ghost_implB.status_ != 0);
  { RESET(); (void)M_SetTolerance(&A, d); CHECK1("SetTolerance"); }
  { RESET(); (void)M_Simplify(&A, d); CHECK1("Simplify"); }
  { RESET(); (void)M_AsOriginal(&A); CHECK1("AsOriginal"); }
  { RESET(); (void)M_Warp(&A, fn); CHECK1("Warp"); }
  { RESET(); (void)M_WarpBatch(&A, fn); CHECK1("WarpBatch"); }
  { RESET(); (void)M_SetProperties(&A, i, fn); CHECK1("SetProperties"); }
  { RESET(); (void)M_CalculateCurvature(&A, i, j); CHECK1("CalculateCurvature"); }
  { RESET(); (void)M_CalculateNormals(&A, i, d); CHECK1("CalculateNormals"); }
  { RESET(); (void)M_SmoothByNormals(&A, i); CHECK1("SmoothByNormals"); }
  { RESET(); (void)M_SmoothOut(&A, d, d); CHECK1("SmoothOut"); }
  { RESET(); (void)M_Refine(&A, i); CHECK1("Refine"); }
  { RESET(); (void)M_RefineToLength(&A, d); CHECK1("RefineToLength"); }
  { RESET(); (void)M_RefineToTolerance(&A, d); CHECK1("RefineToTolerance"); }
  { RESET(); (void)M_Hull(&A); CHECK1("Hull"); }
  /* two operands: the first errored operand (this, then other) determines the status */
  { RESET(); (void)M_MinkowskiSum(&A, &B);
    __CPROVER_assert(IMPLIES(ghost_implA.status_ != 0, ghost_rec_PropagateStatus_calls == 1 && ghost_rec_PropagateStatus_status == ghost_implA.status_), "MinkowskiSum: errored left operand");
    __CPROVER_assert(IMPLIES(ghost_implA.status_ == 0 && ghost_implB.status_ != 0, ghost_rec_PropagateStatus_calls == 1 && ghost_rec_PropagateStatus_status == ghost_implB.status_), "MinkowskiSum: errored right operand"); }
  { RESET(); (void)M_MinkowskiDifference(&A, &B);
    __CPROVER_assert(IMPLIES(ghost_implA.status_ != 0, ghost_rec_PropagateStatus_calls == 1 && ghost_rec_PropagateStatus_status == ghost_implA.status_), "MinkowskiDifference: errored left operand");
    __CPROVER_assert(IMPLIES(ghost_implA.status_ == 0 && ghost_implB.status_ != 0, ghost_rec_PropagateStatus_calls == 1 && ghost_rec_PropagateStatus_status == ghost_implB.status_), "MinkowskiDifference: errored right operand"); }
}
void h_propagate_more(void) {
  struct Manifold arr[2]; struct linalg_vec_double_3 nrm; double d = nondet_double();
  ghost_mA = &arr[0];
  ghost_implA.status_ = nondet_int(); ghost_implB.status_ = nondet_int();
  __CPROVER_assume(0 <= ghost_implA.status_ && ghost_implA.status_ < ENUMCOUNT_Manifold_Error && 0 <= ghost_implB.status_ && ghost_implB.status_ < ENUMCOUNT_Manifold_Error);
  unsigned long n = nondet_ulong(); __CPROVER_assume(n == 1 || n == 2);
  struct std_vector_Manifold v = { arr, n, n };
  HARNESS_END;
  SATISFIABLE(n == 2 && ghost_implA.status_ == 0 && ghost_implB.status_ != 0);
  { RESET(); (void)M_SplitByPlane(&arr[0], nrm, d); CHECK1("SplitByPlane"); }
  { RESET(); (void)M_HullVec(&v);
    _Bool errA = ghost_implA.status_ != 0, errB = n == 2 && ghost_implB.status_ != 0;
    __CPROVER_assert(IMPLIES(errA || errB, ghost_rec_PropagateStatus_calls == 1), "Hull(vector): an errored operand anywhere in the list makes the hull an error");
    __CPROVER_assert(IMPLIES(errA || errB, (errA && ghost_rec_PropagateStatus_status == ghost_implA.status_) || (errB && ghost_rec_PropagateStatus_status == ghost_implB.status_)), "Hull(vector): the status reported is that of an errored operand");
    __CPROVER_assert(IMPLIES(!errA && !errB, ghost_rec_PropagateStatus_calls == 0), "Hull(vector): error-free operands are hulled"); }
}
#endif
