/* C04: "Results are bit-identical across schedules, thread counts and backends" -- Merge(): the merge vectors it
 * writes are the roots of a union-find whose winner (union by rank, ties by index) depends on the order of the
 * unite calls; the callback handed to the collider mutates that one shared structure and the SimpleRecorder has
 * no thread-local storage.  Contract of the call site: a query whose callback has order-dependent shared effects
 * is issued with parallel == false (the only schedule under which the callback order is the deterministic
 * traversal order).  The query is also the self-collision instantiation over the same boxes the collider was
 * built from. */
#ifdef SPEC_CONTRACTS
int ghost_coll_calls; _Bool ghost_coll_parallel; void *ghost_coll_recorder, *ghost_coll_self, *ghost_coll_ctx;
void stub_Collisions(void *self, void *recorder, void *queries, _Bool parallel, void *ctx) {
  ghost_coll_calls++; ghost_coll_parallel = parallel; ghost_coll_recorder = recorder; ghost_coll_self = self; ghost_coll_ctx = ctx;
}
unsigned long stub_unite(void) { return nondet_ulong(); }
#endif
#ifdef SPEC_HARNESS
void h_weld(void) {
  struct DisjointSets uf; struct Vec_int_0 openVerts; struct Collider collider; struct Vec_Box_0 vertBox; struct MeshGLP_float_unsigned_int mesh;
  unsigned long n = nondet_ulong();
  __CPROVER_assume(n <= 100000000ul);
  vertBox._base0.size_ = n; vertBox._base0.ptr_ = malloc(vertBox._base0.size_ * sizeof(struct Box)); __CPROVER_assume(vertBox._base0.ptr_ != 0);
  ghost_coll_calls = 0;
  HARNESS_END;
  (void)Merge32_weld(uf, openVerts, collider, vertBox, &mesh);
  __CPROVER_assert(ghost_coll_calls == 1, "one weld query");
  __CPROVER_assert(!ghost_coll_parallel, "the weld query is sequential: its callback unites into one shared DisjointSets and the resulting roots depend on call order");
}
#endif
