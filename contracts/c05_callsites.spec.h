/* C05: "copy-on-write storage is unobservable": a Halfedges buffer may be shared between Impl objects (Transform
 * shares by assignment); it may be written only while its owner count is 1.  The kernel units assert that at every
 * element write (COW_GUARD) and ASSUME uniqueness on entry "because the caller made the buffers unique".  This unit
 * discharges that assumption for the callers: starting from possibly shared buffers, every phase that writes
 * halfedge_ is preceded on every path by halfedge_.MakeUnique().
 * Which callee is a writer is read off the kernels under contract: SortVerts -> ReindexVerts (c04_reorder),
 * SortFaces -> GatherFaces/ReindexFace + ReorderHalfedges (c01_reindexface, c04_reorder), CompactProps (c07_compact),
 * SplitPinchedVerts / DedupeEdges / Collapse* / Swap* -> PairUp, CollapseTri, RemoveIfFolded (c01_edgeop). */
#ifdef SPEC_CONTRACTS
int ghost_unique, ghost_write_shared, ghost_writes;
void stub_make_unique(void) { ghost_unique = 1; }
_Bool stub_false(void) { return 0; }
void stub_writer(void) { ghost_writes++; if (!ghost_unique) ghost_write_shared = 1; }
void stub_reader(void) {}
/* CleanupTopology as a callee of SimplifyTopology(2): its own contract (job CleanupTopology): makes unique, then writes */
void stub_callee_cleanup(void) { ghost_unique = 1; ghost_writes++; }
#endif
#ifdef SPEC_HARNESS
#define START() do { ghost_unique = 0; ghost_write_shared = 0; ghost_writes = 0; } while (0)
#define POST(name) __CPROVER_assert(!ghost_write_shared, name ": no phase writes halfedge_ while its buffers may still be shared (MakeUnique comes first on every path)")
void h_sortgeometry(void) {
  struct Manifold_Impl impl; struct ExecutionContext_Impl ctx;
  impl.halfedge_.start_._base0.size_ = nondet_ulong();
  START(); HARNESS_END;
  Impl_SortGeometry(&impl, &ctx);
  POST("SortGeometry");
  SATISFIABLE(ghost_writes >= 3);
}
void h_cleanup(void) {
  struct Manifold_Impl impl; impl.halfedge_.start_._base0.size_ = nondet_ulong();
  START(); HARNESS_END;
  Impl_CleanupTopology(&impl);
  POST("CleanupTopology");
  SATISFIABLE(ghost_writes >= 2);
}
void h_simplify(void) {
  struct Manifold_Impl impl; impl.halfedge_.start_._base0.size_ = nondet_ulong();
  START(); HARNESS_END;
  if (nondet_bool()) Impl_SimplifyTopology(&impl, nondet_int()); else Impl_SimplifyTopology2(&impl);
  POST("SimplifyTopology / SimplifyTopology2");
  SATISFIABLE(ghost_writes >= 1);
}
#endif
