/* C20: "Every function of the C FFI returns the value ... that the C++ call it names returns for
 * the same arguments (same ... error codes)": the enum switch tables are name-faithful and inverse. */
#ifdef SPEC_HARNESS
#define E(n) ENUM_Manifold_Error_##n
#define CE(n) ENUM_ManifoldError_##n
void h_enum_tables(void) {
  /* Manifold::Error -> ManifoldError, one assertion per enumerator, paired by NAME */
  __CPROVER_assert(to_c_Error(E(NoError)) == CE(MANIFOLD_NO_ERROR), "NoError");
  __CPROVER_assert(to_c_Error(E(NonFiniteVertex)) == CE(MANIFOLD_NON_FINITE_VERTEX), "NonFiniteVertex");
  __CPROVER_assert(to_c_Error(E(NotManifold)) == CE(MANIFOLD_NOT_MANIFOLD), "NotManifold");
  __CPROVER_assert(to_c_Error(E(VertexOutOfBounds)) == CE(MANIFOLD_VERTEX_INDEX_OUT_OF_BOUNDS), "VertexOutOfBounds");
  __CPROVER_assert(to_c_Error(E(PropertiesWrongLength)) == CE(MANIFOLD_PROPERTIES_WRONG_LENGTH), "PropertiesWrongLength");
  __CPROVER_assert(to_c_Error(E(MissingPositionProperties)) == CE(MANIFOLD_MISSING_POSITION_PROPERTIES), "MissingPositionProperties");
  __CPROVER_assert(to_c_Error(E(MergeVectorsDifferentLengths)) == CE(MANIFOLD_MERGE_VECTORS_DIFFERENT_LENGTHS), "MergeVectorsDifferentLengths");
  __CPROVER_assert(to_c_Error(E(MergeIndexOutOfBounds)) == CE(MANIFOLD_MERGE_INDEX_OUT_OF_BOUNDS), "MergeIndexOutOfBounds");
  __CPROVER_assert(to_c_Error(E(TransformWrongLength)) == CE(MANIFOLD_TRANSFORM_WRONG_LENGTH), "TransformWrongLength");
  __CPROVER_assert(to_c_Error(E(RunIndexWrongLength)) == CE(MANIFOLD_RUN_INDEX_WRONG_LENGTH), "RunIndexWrongLength");
  __CPROVER_assert(to_c_Error(E(FaceIDWrongLength)) == CE(MANIFOLD_FACE_ID_WRONG_LENGTH), "FaceIDWrongLength");
  __CPROVER_assert(to_c_Error(E(InvalidConstruction)) == CE(MANIFOLD_INVALID_CONSTRUCTION), "InvalidConstruction");
  __CPROVER_assert(to_c_Error(E(ResultTooLarge)) == CE(MANIFOLD_RESULT_TOO_LARGE), "ResultTooLarge");
  __CPROVER_assert(to_c_Error(E(InvalidTangents)) == CE(MANIFOLD_INVALID_TANGENTS), "InvalidTangents");
  __CPROVER_assert(to_c_Error(E(Cancelled)) == CE(MANIFOLD_CANCELLED), "Cancelled");
  /* the list above is complete, and distinct errors stay distinct */
  __CPROVER_assert(ENUMCOUNT_Manifold_Error == 15 && ENUMCOUNT_ManifoldError == 15, "every enumerator of both enums is listed above");
  int a = nondet_int(), b = nondet_int();
  __CPROVER_assume(0 <= a && a < ENUMCOUNT_Manifold_Error && 0 <= b && b < ENUMCOUNT_Manifold_Error);
  __CPROVER_assert(IMPLIES(a != b, to_c_Error(a) != to_c_Error(b)), "error table is injective");
  __CPROVER_assert(IMPLIES(a != E(NoError), to_c_Error(a) != CE(MANIFOLD_NO_ERROR)), "an error never becomes MANIFOLD_NO_ERROR");
  /* OpType both ways */
  __CPROVER_assert(to_c_OpType(ENUM_OpType_Add) == ENUM_ManifoldOpType_MANIFOLD_ADD && to_c_OpType(ENUM_OpType_Subtract) == ENUM_ManifoldOpType_MANIFOLD_SUBTRACT &&
                   to_c_OpType(ENUM_OpType_Intersect) == ENUM_ManifoldOpType_MANIFOLD_INTERSECT, "OpType -> C by name");
  __CPROVER_assert(from_c_OpType(ENUM_ManifoldOpType_MANIFOLD_ADD) == ENUM_OpType_Add && from_c_OpType(ENUM_ManifoldOpType_MANIFOLD_SUBTRACT) == ENUM_OpType_Subtract &&
                   from_c_OpType(ENUM_ManifoldOpType_MANIFOLD_INTERSECT) == ENUM_OpType_Intersect, "C -> OpType by name");
  __CPROVER_assert(ENUMCOUNT_OpType == 3 && ENUMCOUNT_ManifoldOpType == 3, "OpType lists complete");
  int o = nondet_int();
  __CPROVER_assume(0 <= o && o < 3);
  __CPROVER_assert(from_c_OpType(to_c_OpType(o)) == o && to_c_OpType(from_c_OpType(o)) == o, "OpType tables are mutually inverse");
  /* JoinType */
  __CPROVER_assert(from_c_JoinType(ENUM_ManifoldJoinType_MANIFOLD_JOIN_TYPE_SQUARE) == ENUM_JoinType_Square &&
                   from_c_JoinType(ENUM_ManifoldJoinType_MANIFOLD_JOIN_TYPE_ROUND) == ENUM_JoinType_Round &&
                   from_c_JoinType(ENUM_ManifoldJoinType_MANIFOLD_JOIN_TYPE_MITER) == ENUM_JoinType_Miter &&
                   from_c_JoinType(ENUM_ManifoldJoinType_MANIFOLD_JOIN_TYPE_BEVEL) == ENUM_JoinType_Bevel, "JoinType by name");
  __CPROVER_assert(ENUMCOUNT_JoinType == 4 && ENUMCOUNT_ManifoldJoinType == 4, "JoinType lists complete");
  HARNESS_END;
}
#endif
