/* C07: "every output triangle's (originalID, faceID, ...) names the input instance it came from": instances are told apart
 * by mesh IDs handed out by ReserveIDs.  c07_updateref assumes "every mesh ID in use is below the counter"; this unit
 * shows the only writer of the counter keeps that true, and that a fresh original refers to its own new ID. */
#include "halfedge_spec.h"
#ifdef SPEC_HARNESS
void h_ids(void) {
  unsigned c0 = nondet_uint(), n1 = nondet_uint(), n2 = nondet_uint();
  __CPROVER_assume(c0 >= 1 && c0 <= (1u << 30) && n1 <= (1u << 20) && n2 <= (1u << 20));   /* no wrap-around of the 32-bit counter */
  Manifold_Impl_meshIDCounter._v = c0;
  HARNESS_END;
  unsigned r1 = Impl_ReserveIDs(n1);
  unsigned c1 = Manifold_Impl_meshIDCounter._v;
  __CPROVER_assert(r1 == c0 && c1 == c0 + n1, "a reservation returns the old counter and advances it by the amount reserved");
  unsigned k = nondet_uint(); __CPROVER_assume(k < n1);
  __CPROVER_assert(r1 + k < c1 && r1 + k >= c0, "every reserved ID is below the counter afterwards and was not below it before (fresh)");
  unsigned r2 = Impl_ReserveIDs(n2);
  unsigned j = nondet_uint(); __CPROVER_assume(j < n2);
  __CPROVER_assert(r2 + j != r1 + k, "two reservations never share an ID");
  __CPROVER_assert(Manifold_Impl_meshIDCounter._v >= c1, "the counter never moves backwards (IDs in use stay below it)");
  /* InitializeOriginal's per-triangle step */
  struct Vec_TriRef_0 refs; unsigned long nt = nondet_ulong(); __CPROVER_assume(nt >= 1 && nt <= 100000000ul);
  ALLOC_VIEW(refs._base0, struct TriRef, nt);
  unsigned long t = nondet_ulong(), g = nondet_ulong(); __CPROVER_assume(t < nt && g < nt);
  struct TriRef before_t = refs._base0.ptr_[t], before_g = refs._base0.ptr_[g];
  struct InitOriginal_tri_closure cl; cl.meshID = (int)r2; cl.triRef = &refs;
  InitOriginal_tri(&cl, (int)t);
  struct TriRef a = refs._base0.ptr_[t];
  __CPROVER_assert(a.meshID == (int)r2 && a.originalID == (int)r2 && a.faceID == -1 && a.coplanarID == before_t.coplanarID, "an original's triangle refers to the fresh ID as mesh and as original, has no face ID yet, and keeps its coplanar group");
  __CPROVER_assert(IMPLIES(g != t, __CPROVER_equal(refs._base0.ptr_[g], before_g)), "frame: no other triangle's reference is written");
}
#endif
