/* C13: "ScanBody/CopyIfScanBody two-phase scans (pre_scan/final_scan, reverse_join, assign)" equal their sequential
 * spec: std::copy_if is stable -- the k-th kept element of the input is the k-th element of the output. */
#ifdef SPEC_HARNESS
void h_copyif_protocol(void) {
  int in[SCAN_N], flags[SCAN_N], out[SCAN_N], ref[SCAN_N];
  unsigned long c0 = nondet_ulong(), c1 = nondet_ulong();
  __CPROVER_assume(c0 <= c1 && c1 <= SCAN_N);
  /* sequential specification */
  unsigned long cnt = 0;
  for (int k = 0; k < SCAN_N; ++k) if (flags[k] != 0) ref[cnt++] = in[k];
  struct verif_IsKept pred; pred.flags = flags;
  struct details_CopyIfScanBody_intP_intP_verif_IsKept A, B, C;
  A.sum = 0; A.pred = &pred; A.input = in; A.output = out;
  struct tbb_detail_split sp;
  B = CopyIf_split(&A, sp);
  C = CopyIf_split(&B, sp);
  struct tbb_blocked_range_size_t R0 = {0, c0}, R1 = {c0, c1}, R2 = {c1, SCAN_N};
  struct tbb_detail_d1_pre_scan_tag pre; struct tbb_detail_d1_final_scan_tag fin;
  HARNESS_END;
  SATISFIABLE(c0 == 2 && c1 == 4 && flags[0] != 0 && flags[1] == 0 && flags[5] != 0);
  CopyIf_final(&A, &R0, fin);
  CopyIf_pre(&B, &R1, pre);
  CopyIf_pre(&C, &R2, pre);
  CopyIf_reverse_join(&B, &A);   /* B summarises [0,c1) */
  CopyIf_final(&A, &R1, fin);    /* A carries the prefix of R1 */
  CopyIf_assign(&C, &B);
  CopyIf_final(&C, &R2, fin);
  CopyIf_assign(&A, &C);
  __CPROVER_assert(A.sum == cnt, "the final sum is the number of kept elements");
  for (int k = 0; k < SCAN_N; ++k) __CPROVER_assert(IMPLIES((unsigned long)k < cnt, out[k] == ref[k]), "parallel copy_if equals the stable sequential copy_if at every output position");
}
#endif
