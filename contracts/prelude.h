/* Common spec vocabulary for all units (C / C++ common subset where used by
 * replay drivers).  Under CBMC the __CPROVER_* primitives are built in; for
 * the native differential build they are compiled away. */
#ifndef VERIF_PRELUDE_H
#define VERIF_PRELUDE_H
#ifndef CPROVER
#define __CPROVER_atomic_begin() ((void)0)
#define __CPROVER_atomic_end() ((void)0)
#define __CPROVER_assert(c, m) ((void)0)
#define __CPROVER_assume(c) ((void)0)
#endif
#ifdef CPROVER
void *malloc(__CPROVER_size_t);
void free(void *);
int nondet_int(void);
unsigned nondet_uint(void);
unsigned long nondet_ulong(void);
long nondet_long(void);
_Bool nondet_bool(void);
double nondet_double(void);
float nondet_float(void);
#endif
/* fresh object of n elements of *p */
/* regions (selected top-level statements of a function): fall-through marker and local export */
#ifndef REGION_FALLTHROUGH
#define REGION_FALLTHROUGH ((void)0)
#endif
#ifndef EXPORT_LOCAL
#define EXPORT_LOCAL(x) ((void)0)
#endif
#ifndef SKELETON_RETURN
#define SKELETON_RETURN(f) ((void)0)
#endif
#ifndef MOVED_FROM_HOOK
#define MOVED_FROM_HOOK(p) ((void)0)   /* move construction from std::move(x): &x */
#endif
#ifndef PLACEMENT_NEW_HOOK
#define PLACEMENT_NEW_HOOK(p) (p)
#endif
#define FRESH(p, n) __CPROVER_is_fresh((p), (n) * sizeof(*(p)))
#define IMPLIES(a, b) (!(a) || (b))
/* vacuity guard for assertion harnesses: built with -DCANARY_HARNESS this must FAIL */
#ifdef CANARY_HARNESS
#define HARNESS_END __CPROVER_assert(0, "canary: end of harness reachable")
/* the antecedent of a conditional obligation must be satisfiable: in the canary build its negation must be refuted */
#define SATISFIABLE(c) __CPROVER_assert(!(c), "canary: antecedent satisfiable")
#else
#define HARNESS_END ((void)0)
#define SATISFIABLE(c) ((void)0)
#endif
/* strict-weak-order lemmas over three arbitrary records: LT(x,y) is the call */
#define ASSERT_STRICT_ORDER(LT, a, b, c)                                                   \
  do {                                                                                     \
    __CPROVER_assert(!LT(a, a), "irreflexive");                                            \
    __CPROVER_assert(IMPLIES(LT(a, b), !LT(b, a)), "asymmetric");                          \
    __CPROVER_assert(IMPLIES(LT(a, b) && LT(b, c), LT(a, c)), "transitive");               \
    __CPROVER_assert(IMPLIES(!LT(a, b) && !LT(b, a) && !LT(b, c) && !LT(c, b),             \
                             !LT(a, c) && !LT(c, a)), "incomparability is transitive");    \
  } while (0)
#endif
