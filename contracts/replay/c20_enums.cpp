// C20 native driver: the enum conversion tables of the real binding (conv.cpp compiled into this program),
// exhaustively.  Names are paired by the X-macro lists below (C++ enumerator <-> C enumerator of the same name).
// input v = table, value     table 0: Error -> C, 1: OpType both ways
#include "replay.h"
#include "conv.cpp"   // found through -I<repo>/bindings/c (the tree under test)

#define ERRS(X) X(NoError, MANIFOLD_NO_ERROR) X(NonFiniteVertex, MANIFOLD_NON_FINITE_VERTEX) X(NotManifold, MANIFOLD_NOT_MANIFOLD) \
  X(VertexOutOfBounds, MANIFOLD_VERTEX_INDEX_OUT_OF_BOUNDS) X(PropertiesWrongLength, MANIFOLD_PROPERTIES_WRONG_LENGTH) \
  X(MissingPositionProperties, MANIFOLD_MISSING_POSITION_PROPERTIES) X(MergeVectorsDifferentLengths, MANIFOLD_MERGE_VECTORS_DIFFERENT_LENGTHS) \
  X(MergeIndexOutOfBounds, MANIFOLD_MERGE_INDEX_OUT_OF_BOUNDS) X(TransformWrongLength, MANIFOLD_TRANSFORM_WRONG_LENGTH) \
  X(RunIndexWrongLength, MANIFOLD_RUN_INDEX_WRONG_LENGTH) X(FaceIDWrongLength, MANIFOLD_FACE_ID_WRONG_LENGTH) \
  X(InvalidConstruction, MANIFOLD_INVALID_CONSTRUCTION) X(ResultTooLarge, MANIFOLD_RESULT_TOO_LARGE) X(InvalidTangents, MANIFOLD_INVALID_TANGENTS) \
  X(Cancelled, MANIFOLD_CANCELLED)

static std::string one(int table, int value) {
  if (table == 0) {
    int k = 0;
#define X(cpp, c) if (k++ == value) { ManifoldError got = to_c(manifold::Manifold::Error::cpp); \
      if (got != c) return std::string("to_c(Error::" #cpp ") = ") + std::to_string((int)got) + ", expected " #c " = " + std::to_string((int)c); return ""; }
    ERRS(X)
#undef X
    return "";
  }
  const manifold::OpType ops[3] = {manifold::OpType::Add, manifold::OpType::Subtract, manifold::OpType::Intersect};
  const ManifoldOpType cops[3] = {MANIFOLD_ADD, MANIFOLD_SUBTRACT, MANIFOLD_INTERSECT};
  if (value < 0 || value > 2) return "";
  if (to_c(ops[value]) != cops[value]) return "to_c(OpType) slip at " + std::to_string(value);
  if (from_c(cops[value]) != ops[value]) return "from_c(ManifoldOpType) slip at " + std::to_string(value);
  return "";
}

int main(int argc, char** argv) {
  const char* mode = argc > 1 ? argv[1] : "smoke";
  if (!strcmp(mode, "run")) {
    auto in = parse_nums(argc > 3 ? argv[3] : "");
    while (in.size() < 2) in.push_back(0);
    report_current("enum_table", in);
    auto s = one((int)in[0], (int)in[1]);
    if (!s.empty()) { report_fail("enum_table", in, s); return 1; }
    report_summary(1, "enum_table");
    return 0;
  }
  int bad = 0; long runs = 0;
  for (int t = 0; t < 2; ++t)
    for (int v = 0; v < (t == 0 ? 15 : 3); ++v) {
      std::vector<long long> in = {t, v};
      report_current("enum_table", in);
      auto s = one(t, v);
      ++runs;
      if (!s.empty()) { report_fail("enum_table", in, s); ++bad; }
    }
  report_summary(runs, "enum_table");
  return bad ? 1 : 0;
}
