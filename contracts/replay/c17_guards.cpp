// C17/C09 native driver: constructors called through the PUBLIC API with one numeric argument replaced by NaN,
// +inf, -inf (and the documented out-of-domain values).  Required outcome for such an argument: an empty Manifold
// whose Status() is not NoError -- never a NoError result, never out-of-range indices (ASan/UBSan are on).
// input v = ctor, arg, kind      ctor: 0 Cube 1 Sphere 2 Cylinder 3 Extrude 4 Revolve 5 LevelSet
//                                kind: 0 NaN 1 +inf 2 -inf
#include <cmath>
#include <sstream>
#include <unistd.h>
#include "replay.h"
#include "manifold/manifold.h"
#include "manifold/cross_section.h"
using namespace manifold;

static double bad(int kind) { return kind == 0 ? std::nan("") : kind == 1 ? INFINITY : -INFINITY; }
static const int kArgs[6] = {3, 1, 3, 4, 1, 5};
// Revolve(+inf) is clamped to a full revolution by design (revolveDegrees > 360 -> 360): a usable result
static bool acceptable_usable(int ctor, int arg, int kind) { return ctor == 4 && kind == 1; }
// input_nonfinite: v = case, kind   -- a non-finite number inside a polygon / produced by a warp callback
//   case 0 Extrude polygon x, 1 Extrude polygon y, 2 Revolve polygon x, 3 Revolve polygon y, 4 Warp x, 5 Warp y, 6 Warp z,
//   7 Translate + union, 8 Scale + union, 9 Rotate + union, 10 Hull point x, 11 Hull point z, 12 Warp of an object with properties
static std::string input_nonfinite(int c, int kind) {
  const double b = bad(kind);
  Polygons a = {{{0, 0}, {1, 0}, {1, 1}, {0, 1}}};
  Polygons r = {{{1, 0}, {2, 0}, {2, 1}, {1, 1}}};
  Manifold m;
  switch (c) {
    case 0: a[0][2].x = b; m = Manifold::Extrude(a, 1); break;
    case 1: a[0][2].y = b; m = Manifold::Extrude(a, 1); break;
    case 2: r[0][2].x = b; m = Manifold::Revolve(r, 8); break;
    case 3: r[0][2].y = b; m = Manifold::Revolve(r, 8); break;
    case 4: case 5: case 6: { const int ax = c - 4; m = Manifold::Cube().Warp([ax, b](vec3& v) { if (v.x > 0.5) v[ax] = b; }); break; }
    // a non-finite pending transform consumed by the disjoint-union fast path (CsgLeafNode::Compose)
    case 7: m = Manifold::Cube().Translate({b, 0, 0}) + Manifold::Cube().Translate({5, 0, 0}); break;
    case 8: m = Manifold::Cube().Translate({5, 0, 0}) + Manifold::Cube().Scale({1, b, 1}); break;
    case 9: m = Manifold::Cube().Rotate(b, 0, 0) + Manifold::Cube().Translate({5, 0, 0}); break;
    // an object with a property matrix that is emptied by an error (finding 13: MakeEmpty kept the properties)
    case 12: m = Manifold::Cube().SetProperties(2, [](double* p, vec3 v, const double*) { p[0] = v.x; p[1] = v.y; }).Warp([b](vec3& v) { if (v.x > 0.5) v.x = b; }); break;
    // a non-finite point in a point set
    default: { std::vector<vec3> p = {{0, 0, 0}, {1, 0, 0}, {0, 1, 0}, {0, 0, 1}, {1, 1, 1}}; p[4][c == 10 ? 0 : 2] = b; m = Manifold::Hull(p); }
  }
  auto st = m.Status();
  MeshGL64 g = m.GetMeshGL64();
  const size_t nv = g.NumVert();
  for (auto i : g.triVerts) if (i >= nv) return "a triangle references vertex " + std::to_string(i) + " of " + std::to_string(nv);
  for (double v : g.vertProperties) if (!std::isfinite(v)) return "Status " + std::to_string((int)st) + " with a non-finite coordinate in the result";
  // Revolve uses "only the part on the positive X side": a vertex whose x is NaN or -inf is not on that side and is
  // clipped away like any x < 0 vertex; the finite, index-valid solid that remains is a usable result
  if (c == 2 && st == Manifold::Error::NoError && !m.IsEmpty()) return "";
  if (st == Manifold::Error::NoError) return std::string("non-finite input gave Status NoError (") + (m.IsEmpty() ? "empty-but-valid)" : "non-empty)");
  if (!m.IsEmpty()) return "error status but not empty";
  if (m.NumVert() || m.NumTri() || m.NumEdge() || m.NumProp() || m.NumPropVert()) return "error status, IsEmpty(), but NumProp " + std::to_string(m.NumProp()) + " / NumPropVert " + std::to_string(m.NumPropVert()) + " left over";
  return "";
}
// degenerate_polygon: v = case, number of vertices (0..2) of a contour that bounds no area
//   case 0 Extrude {contour, square}, 1 Extrude {contour}, 2 Revolve {contour}, 3 Revolve {contour, square}
static std::string degenerate_polygon(int c, int npts) {
  SimplePolygon sq = {{1, 0}, {2, 0}, {2, 1}, {1, 1}}, d;
  for (int i = 0; i < npts; ++i) d.push_back({5.0 + i, 5.0 + i});
  alarm(60);   // "never loops forever": a hang ends the run with SIGALRM
  Manifold m;
  switch (c) {
    case 0: m = Manifold::Extrude({d, sq}, 1); break;
    case 1: m = Manifold::Extrude({d}, 1); break;
    case 2: m = Manifold::Revolve({d}, 8); break;
    default: m = Manifold::Revolve({d, sq}, 8);
  }
  auto st = m.Status();
  MeshGL64 g = m.GetMeshGL64();
  alarm(0);
  const size_t nv = g.NumVert();
  for (auto i : g.triVerts) if (i >= nv) return "a triangle references vertex " + std::to_string(i) + " of " + std::to_string(nv);
  for (size_t t = 0; t + 2 < g.triVerts.size(); t += 3)
    if (g.triVerts[t] == g.triVerts[t + 1] || g.triVerts[t + 1] == g.triVerts[t + 2] || g.triVerts[t] == g.triVerts[t + 2]) return "a triangle repeats a vertex";
  if (st != Manifold::Error::NoError) return m.IsEmpty() ? "" : "error status but not empty";
  return m.Volume() >= 0 ? "" : "NoError with volume " + std::to_string(m.Volume());
}
// refine_args: v = case, kind      case 0 RefineToLength, 1 RefineToTolerance (on a smooth tetrahedron); kind 0 NaN,
// 1 +inf, 2 -inf, 3 zero, 4 negative.  Required: returns normally (no sanitizer report), NoError, finite, and either the
// mesh unrefined or a refinement of it (never fewer triangles)
static std::string refine_args(int c, int kind) {
  const double v = kind < 3 ? bad(kind) : kind == 3 ? 0.0 : -0.5;
  alarm(120);
  Manifold base = c == 0 ? Manifold::Cube() : Manifold::Smooth(Manifold::Tetrahedron().GetMeshGL64());
  Manifold m = c == 0 ? base.RefineToLength(v) : base.RefineToTolerance(v);
  alarm(0);
  if (m.Status() != Manifold::Error::NoError) return "status " + std::to_string((int)m.Status());
  MeshGL64 g = m.GetMeshGL64();
  for (double x : g.vertProperties) if (!std::isfinite(x)) return "non-finite coordinate";
  if (m.NumTri() < base.NumTri()) return "fewer triangles than the input";
  return "";
}
// misc_args: v = case   -- out-of-domain numeric arguments found by probing (finding 16); required: returns normally (no
// sanitizer report), index-valid and finite, and either an error status with an empty object or a usable result
static std::string misc_args(int c) {
  const double nan = std::nan("");
  auto sdf = [](vec3 p) { return 0.8 - la::length(p); };
  Box b({-1, -1, -1}, {1, 1, 1});
  Manifold cube = Manifold::Cube(), sph = Manifold::Sphere(1, 16), m;
  bool must_be_invalid = false;
  alarm(120);
  switch (c) {
    case 0: m = Manifold::Extrude({{{0, 0}, {1, 0}, {0, 1}}}, 1, -3); must_be_invalid = true; break;
    case 1: m = Manifold::LevelSet(sdf, b, 0.0); must_be_invalid = true; break;
    case 2: m = Manifold::LevelSet(sdf, b, nan); must_be_invalid = true; break;
    case 3: m = Manifold::LevelSet(sdf, b, -0.2); must_be_invalid = true; break;
    case 4: m = Manifold::LevelSet(sdf, b, 0.2, nan); must_be_invalid = true; break;
    case 5: m = Manifold::LevelSet(sdf, Box({nan, -1, -1}, {1, 1, 1}), 0.2); must_be_invalid = true; break;
    case 6: m = Manifold::LevelSet(sdf, Box({-1, -1, -1}, {INFINITY, 1, 1}), 0.2); must_be_invalid = true; break;
    case 7: m = cube.SetProperties(-1, [](double*, vec3, const double*) {}); break;
    case 8: m = sph.SmoothByNormals(-5); break;
    case 9: m = sph.SmoothByNormals(7); break;
    case 10: m = cube.SetProperties(2, [](double* p, vec3 v, const double*) { p[0] = v.x; p[1] = v.y; }).SmoothByNormals(0); break;   // 2 channels: no room for a normal
    default: m = cube.CalculateCurvature(-5, 2);
  }
  alarm(0);
  auto st = m.Status();
  MeshGL64 g = m.GetMeshGL64();
  const size_t nv = g.NumVert();
  for (auto i : g.triVerts) if (i >= nv) return "a triangle references vertex " + std::to_string(i) + " of " + std::to_string(nv);
  for (double v : g.vertProperties) if (!std::isfinite(v)) return "non-finite number in the result";
  if (st != Manifold::Error::NoError) return m.IsEmpty() ? "" : "error status but not empty";
  if (must_be_invalid) return "an argument outside the domain gave Status NoError";
  return m.NumTri() > 0 ? "" : "NoError but empty";
}
// cross_section_args: v = case, kind (NaN, +inf, -inf)   case 0 Circle(radius), 1 Square({x, 1}), 2 Square({1, y})
// required: an empty section, or finite contours (finding 17)
static std::string cross_section_args(int c, int kind) {
  const double v = bad(kind);
  CrossSection cs = c == 0 ? CrossSection::Circle(v) : c == 1 ? CrossSection::Square({v, 1}) : CrossSection::Square({1, v});
  if (cs.IsEmpty()) return "";
  for (auto& poly : cs.ToPolygons()) for (auto p : poly) if (!std::isfinite(p.x) || !std::isfinite(p.y)) return "non-empty section with a non-finite coordinate";
  return std::isfinite(cs.Area()) ? "" : "non-finite area";
}
// obj_text: v = case   -- malformed OBJ text through Manifold::ReadOBJ (finding 18): must return (no exception, no
// sanitizer report) a usable mesh or an empty Manifold with an error status
static std::string obj_text(int c) {
  static const char* T[] = {
    "v 0 0 0\nv 1 0 0\nv 0 1 0\nv 0 0 1\nf 1 3 2\nf 1 2 4\nf 1 4 3\nf 2 3 4\n",
    "v 0 0 0\nv 1 0 0\nv 0 1 0\nv 0 0 1\nf 1 3 2\nf 1 2 4\nf 1 4 3\nf 2 3 99999\n",
    "v 0 0 0\nv 1 0 0\nv 0 1 0\nv 0 0 1\nf 1 3 2\nf 1 2 4\nf 1 4 3\nf 2 3 0\n",
    "v 0 0 0\nv 1 0 0\nv 0 1 0\nv 0 0 1\nf 1 3 2\nf 1 2 4\nf 1 4 3\nf -1 -2 -3\n",
    "v nan nan nan\nv 1 0 0\nv 0 1 0\nv 0 0 1\nf 1 3 2\nf 1 2 4\nf 1 4 3\nf 2 3 4\n",
    "v 1e999 0 0\nv 1 0 0\nv 0 1 0\nv 0 0 1\nf 1 3 2\nf 1 2 4\nf 1 4 3\nf 2 3 4\n",
    "v 0 0\nv 1 0 0\nv 0 1 0\nv 0 0 1\nf 1 3 2\nf 1 2 4\nf 1 4 3\nf 2 3 4\n",
    "f 1 2 3\n",
    "v 0 0 0\nv 1 0 0\nv 0 1 0\nv 0 0 1\nf 1 3\nf 1 2 4\nf 1 4 3\nf 2 3 4\n",
    "v 0 0 0\nv 1 0 0\nv 0 1 0\nv 0 0 1\nf 99999999999999999999 3 2\nf 1 2 4\nf 1 4 3\nf 2 3 4\n",
    "v 0 0 0\nv 1 0 0\nv 0 1 0\nv 0 0 1\nf 1/1/1 3/3/3 2/2/2\nf 1 2 4\nf 1 4 3\nf 2 3 4\n",
    "# comment only\n", "", "v a b c\nf x y z\n",
  };
  if (c < 0 || c >= (int)(sizeof T / sizeof T[0])) return "";
  std::istringstream in(T[c]);
  alarm(60);
  Manifold m = Manifold::ReadOBJ(in);
  alarm(0);
  MeshGL64 g = m.GetMeshGL64();
  const size_t nv = g.NumVert();
  for (auto i : g.triVerts) if (i >= nv) return "a triangle references vertex " + std::to_string(i) + " of " + std::to_string(nv);
  for (double v : g.vertProperties) if (!std::isfinite(v)) return "non-finite coordinate";
  if (m.Status() != Manifold::Error::NoError && !m.IsEmpty()) return "error status but not empty";
  if (c == 0 && (m.Status() != Manifold::Error::NoError || m.NumTri() != 4)) return "the valid tetrahedron was not read";
  return "";
}
// revolve_angle: v = angle in millidegrees
static std::string revolve_angle(long md) {
  Polygons sq2 = {{{1, 0}, {2, 0}, {2, 1}, {1, 1}}};
  Manifold m = Manifold::Revolve(sq2, 8, md / 1000.0);
  if (md <= 0) {
    if (m.Status() == Manifold::Error::NoError) return "non-positive angle gave Status NoError, volume " + std::to_string(m.Volume());
    return m.IsEmpty() ? "" : "error status but not empty";
  }
  if (m.Status() != Manifold::Error::NoError) return "positive angle rejected";
  return m.Volume() > 0 ? "" : "positive angle gave volume " + std::to_string(m.Volume());
}

static Manifold build(int ctor, int arg, int kind) {
  const double b = bad(kind);
  Polygons sq = {{{0, 0}, {1, 0}, {1, 1}, {0, 1}}};
  Polygons sq2 = {{{1, 0}, {2, 0}, {2, 1}, {1, 1}}};
  auto sdf = [](vec3 p) { return 1.0 - la::length(p); };
  switch (ctor) {
    case 0: { vec3 s(1, 1, 1); s[arg] = b; return Manifold::Cube(s); }
    case 1: return Manifold::Sphere(b, 8);
    case 2: { double a[3] = {1, 1, 1}; a[arg] = b; return Manifold::Cylinder(a[0], a[1], a[2], 8); }
    case 3: { double h = 1, tw = 0; vec2 st(1, 1);
              if (arg == 0) h = b; else if (arg == 1) tw = b; else st[arg - 2] = b;
              return Manifold::Extrude(sq, h, 2, tw, st); }
    case 4: return Manifold::Revolve(sq2, 8, b);
    case 5: { Box box({-2, -2, -2}, {2, 2, 2}); double edge = 0.5, level = 0, tol = -1;
              if (arg == 0) box.min.x = b; else if (arg == 1) box.max.z = b; else if (arg == 2) edge = b; else if (arg == 3) level = b; else tol = b;
              return Manifold::LevelSet(sdf, box, edge, level, tol); }
  }
  return Manifold();
}

static std::string one(int ctor, int arg, int kind) {
  Manifold m = build(ctor, arg, kind);
  auto st = m.Status();
  MeshGL64 g = m.GetMeshGL64();
  const size_t nv = g.NumVert();
  for (auto i : g.triVerts) if (i >= nv) return "status " + std::to_string((int)st) + " but a triangle references vertex " + std::to_string(i) + " of " + std::to_string(nv);
  for (double v : g.vertProperties) if (!std::isfinite(v)) return "non-finite coordinate in the result";
  if (st == Manifold::Error::NoError && !m.IsEmpty() && acceptable_usable(ctor, arg, kind)) return "";
  if (st == Manifold::Error::NoError)
    return std::string("a non-finite argument gave Status NoError (") + (m.IsEmpty() ? "empty-but-valid" : "non-empty") + ", " +
           std::to_string(m.NumVert()) + " verts, " + std::to_string(m.NumTri()) + " tris)";
  if (!m.IsEmpty()) return "error status but not empty";
  return "";
}

int main(int argc, char** argv) {
  const char* mode = argc > 1 ? argv[1] : "smoke";
  if (!strcmp(mode, "run") && argc > 2 && !strcmp(argv[2], "input_nonfinite")) {
    auto in = parse_nums(argc > 3 ? argv[3] : "");
    while (in.size() < 2) in.push_back(0);
    report_current("input_nonfinite", in);
    auto s = input_nonfinite((int)in[0], (int)in[1]);
    if (!s.empty()) { report_fail("input_nonfinite", in, s); return 1; }
    report_summary(1, "input_nonfinite");
    return 0;
  }
  if (!strcmp(mode, "run") && argc > 2 && !strcmp(argv[2], "degenerate_polygon")) {
    auto in = parse_nums(argc > 3 ? argv[3] : "");
    while (in.size() < 2) in.push_back(0);
    report_current("degenerate_polygon", in);
    auto s = degenerate_polygon((int)in[0], (int)in[1]);
    if (!s.empty()) { report_fail("degenerate_polygon", in, s); return 1; }
    report_summary(1, "degenerate_polygon");
    return 0;
  }
  if (!strcmp(mode, "run") && argc > 2 && !strcmp(argv[2], "cross_section_args")) {
    auto in = parse_nums(argc > 3 ? argv[3] : "");
    while (in.size() < 2) in.push_back(0);
    report_current("cross_section_args", in);
    auto s = cross_section_args((int)in[0], (int)in[1]);
    if (!s.empty()) { report_fail("cross_section_args", in, s); return 1; }
    report_summary(1, "cross_section_args");
    return 0;
  }
  if (!strcmp(mode, "run") && argc > 2 && !strcmp(argv[2], "obj_text")) {
    auto in = parse_nums(argc > 3 ? argv[3] : "");
    while (in.size() < 1) in.push_back(0);
    report_current("obj_text", in);
    auto s = obj_text((int)in[0]);
    if (!s.empty()) { report_fail("obj_text", in, s); return 1; }
    report_summary(1, "obj_text");
    return 0;
  }
  if (!strcmp(mode, "run") && argc > 2 && !strcmp(argv[2], "misc_args")) {
    auto in = parse_nums(argc > 3 ? argv[3] : "");
    while (in.size() < 1) in.push_back(0);
    report_current("misc_args", in);
    auto s = misc_args((int)in[0]);
    if (!s.empty()) { report_fail("misc_args", in, s); return 1; }
    report_summary(1, "misc_args");
    return 0;
  }
  if (!strcmp(mode, "run") && argc > 2 && !strcmp(argv[2], "refine_args")) {
    auto in = parse_nums(argc > 3 ? argv[3] : "");
    while (in.size() < 2) in.push_back(0);
    report_current("refine_args", in);
    auto s = refine_args((int)in[0], (int)in[1]);
    if (!s.empty()) { report_fail("refine_args", in, s); return 1; }
    report_summary(1, "refine_args");
    return 0;
  }
  if (!strcmp(mode, "run") && argc > 2 && !strcmp(argv[2], "revolve_angle")) {
    auto in = parse_nums(argc > 3 ? argv[3] : "");
    while (in.size() < 1) in.push_back(0);
    report_current("revolve_angle", in);
    auto s = revolve_angle(in[0]);
    if (!s.empty()) { report_fail("revolve_angle", in, s); return 1; }
    report_summary(1, "revolve_angle");
    return 0;
  }
  if (!strcmp(mode, "run")) {
    auto in = parse_nums(argc > 3 ? argv[3] : "");
    while (in.size() < 3) in.push_back(0);
    report_current("ctor_nonfinite_arg", in);
    auto s = one((int)in[0], (int)in[1], (int)in[2]);
    if (!s.empty()) { report_fail("ctor_nonfinite_arg", in, s); return 1; }
    report_summary(1, "ctor_nonfinite_arg");
    return 0;
  }
  int badn = 0; long runs = 0;
  for (int c = 0; c < 5; ++c)   /* LevelSet (5) only on demand: its grid can be huge */
    for (int a = 0; a < kArgs[c]; ++a)
      for (int k = 0; k < 3; ++k) {
        std::vector<long long> in = {c, a, k};
        report_current("ctor_nonfinite_arg", in);
        auto s = one(c, a, k);
        ++runs;
        if (!s.empty()) { report_fail("ctor_nonfinite_arg", in, s); ++badn; }
      }
  for (long md : {-720000L, -10000L, -1L, 0L, 1L, 10000L, 180000L, 360000L, 720000L}) {
    std::vector<long long> in = {md};
    report_current("revolve_angle", in);
    auto s = revolve_angle(md);
    ++runs;
    if (!s.empty()) { report_fail("revolve_angle", in, s); ++badn; }
  }
  for (int c = 0; c < 4; ++c)
    for (int n = 0; n < 3; ++n) {
      std::vector<long long> in = {c, n};
      report_current("degenerate_polygon", in);
      auto s = degenerate_polygon(c, n);
      ++runs;
      if (!s.empty()) { report_fail("degenerate_polygon", in, s); ++badn; }
    }
  for (int c = 0; c < 3; ++c)
    for (int k = 0; k < 3; ++k) {
      std::vector<long long> in = {c, k};
      report_current("cross_section_args", in);
      auto s = cross_section_args(c, k);
      ++runs;
      if (!s.empty()) { report_fail("cross_section_args", in, s); ++badn; }
    }
  for (int c = 0; c < 14; ++c) {
    std::vector<long long> in = {c};
    report_current("obj_text", in);
    auto s = obj_text(c);
    ++runs;
    if (!s.empty()) { report_fail("obj_text", in, s); ++badn; }
  }
  for (int c = 0; c < 12; ++c) {
    std::vector<long long> in = {c};
    report_current("misc_args", in);
    auto s = misc_args(c);
    ++runs;
    if (!s.empty()) { report_fail("misc_args", in, s); ++badn; }
  }
  for (int c = 0; c < 2; ++c)
    for (int k = 0; k < 5; ++k) {
      std::vector<long long> in = {c, k};
      report_current("refine_args", in);
      auto s = refine_args(c, k);
      ++runs;
      if (!s.empty()) { report_fail("refine_args", in, s); ++badn; }
    }
  for (int c = 0; c < 13; ++c)
    for (int k = 0; k < 3; ++k) {
      std::vector<long long> in = {c, k};
      report_current("input_nonfinite", in);
      auto s = input_nonfinite(c, k);
      ++runs;
      if (!s.empty()) { report_fail("input_nonfinite", in, s); ++badn; }
    }
  report_summary(runs, "ctor_nonfinite_arg,revolve_angle,degenerate_polygon,cross_section_args,obj_text,misc_args,refine_args,input_nonfinite");
  return badn ? 1 : 0;
}
