// C04 schedule / back-end sampling: MeshGL import of an even-manifold with pinched vertices (tetrahedra sharing an apex)
// and duplicated edges (tetrahedra sharing an edge), above the 1e4-halfedge threshold where the TBB branches of
// SplitPinchedVerts / DedupeEdges activate.  One hash per run; exit 1 when runs differ; the single-thread line is
// also compared with the MANIFOLD_PAR=OFF build by tools/parprobe.py.
#include <cmath>
#include <cstdio>
#include <cstdint>
#include <vector>
#ifndef NOTBB
#include <tbb/global_control.h>
#endif
#include "manifold/manifold.h"
using namespace manifold;
static uint64_t fnv(const void* p, size_t n, uint64_t h) { const unsigned char* c = (const unsigned char*)p; for (size_t i = 0; i < n; i++) { h ^= c[i]; h *= 1099511628211ull; } return h; }
static uint64_t hashOf(const Manifold& m) { MeshGL64 g = m.GetMeshGL64(); uint64_t h = 1469598103934665603ull; h = fnv(g.triVerts.data(), g.triVerts.size() * 8, h); h = fnv(g.vertProperties.data(), g.vertProperties.size() * 8, h); return h; }
static void tet(MeshGL64& g, uint64_t a, uint64_t b, uint64_t c, uint64_t d) {
  auto P = [&](uint64_t i) { return vec3(g.vertProperties[3 * i], g.vertProperties[3 * i + 1], g.vertProperties[3 * i + 2]); };
  if (la::dot(la::cross(P(b) - P(a), P(c) - P(a)), P(d) - P(a)) < 0) std::swap(c, d);
  uint64_t t[12] = {a, c, b, a, b, d, a, d, c, b, c, d};
  g.triVerts.insert(g.triVerts.end(), t, t + 12);
}
static MeshGL64 build() {
  MeshGL64 g; g.numProp = 3;
  auto V = [&](double x, double y, double z) { g.vertProperties.insert(g.vertProperties.end(), {x, y, z}); return (uint64_t)(g.vertProperties.size() / 3 - 1); };
  // the filler first, so the small pieces get the highest halfedge indices ...
  MeshGL64 sph = Manifold::Sphere(1, 128).Translate({10, 0, 0}).GetMeshGL64();
  for (double v : sph.vertProperties) g.vertProperties.push_back(v);
  // ... except one tetrahedron of each pinched group, which comes before it: its fan owns the lowest index of the vertex
  const int N = 24; const double s = 1e-3;
  std::vector<uint64_t> apex(N);
  for (int k = 0; k < N; k++) {
    const double ox = 0.5 + 0.01 * (k % 6), oy = 0.01 * (k / 6);
    apex[k] = V(ox, oy, 0);
    tet(g, apex[k], V(ox + s, oy, s), V(ox, oy + s, s), V(ox - s, oy - s, s));          // above the apex
  }
  for (auto i : sph.triVerts) g.triVerts.push_back(i);
  for (int k = 0; k < N; k++) {
    const double ox = 0.5 + 0.01 * (k % 6), oy = 0.01 * (k / 6);
    tet(g, apex[k], V(ox + s, oy, -s), V(ox, oy + s, -s), V(ox - s, oy - s, -s));       // below: shares only the apex
    tet(g, apex[k], V(ox + 2 * s, oy, 0), V(ox + 2 * s, oy + s, s / 2), V(ox + 2 * s, oy - s, s / 2));   // a third fan
    uint64_t a = V(ox, oy + 5 * s, 0), b = V(ox, oy + 5 * s, s);                        // three tetrahedra around one shared edge a-b
    tet(g, a, b, V(ox + s, oy + 5 * s, 0), V(ox + s, oy + 5.5 * s, 0));
    tet(g, a, b, V(ox - s, oy + 5 * s, 0), V(ox - s, oy + 4.5 * s, 0));
    tet(g, a, b, V(ox, oy + 6 * s, s * 0.3), V(ox + s * 0.2, oy + 6 * s, 0));
  }
  return g;
}
int main() {
  const MeshGL64 g = build();
  uint64_t first = 0; int diff = 0;
  for (int t : {1, 2, 4, 8, 16, 16, 8, 3}) {
#ifndef NOTBB
    tbb::global_control gc(tbb::global_control::max_allowed_parallelism, t);
#endif
    Manifold m(g); uint64_t h = hashOf(m);
    printf("threads=%d status=%d vert=%zu tri=%zu hash=%016llx\n", t, (int)m.Status(), m.NumVert(), m.NumTri(), (unsigned long long)h);
    if (!first) first = h; else if (h != first) diff++; }
  printf("%s\n", diff ? "DIFFERENT" : "same"); return diff ? 1 : 0;
}
