#include <cmath>
#include <cstdio>
#include <cstdint>
#include <vector>
#ifndef NOTBB
#include <tbb/global_control.h>
#endif
#include "manifold/manifold.h"
using namespace manifold;
static uint64_t fnv(const void* p, size_t n, uint64_t h) { const unsigned char* c = (const unsigned char*)p; for (size_t i = 0; i < n; i++) { h ^= c[i]; h *= 1099511628211ull; } return h; }
static uint64_t hashOf(const Manifold& m) { MeshGL64 g = m.GetMeshGL64(); uint64_t h = 1469598103934665603ull; h = fnv(g.triVerts.data(), g.triVerts.size() * 8, h); h = fnv(g.vertProperties.data(), g.vertProperties.size() * 8, h); return h; }
int main() {
  std::vector<vec3> pts; uint64_t s = 12345;
  for (int i = 0; i < 20000; i++) { auto r = [&]() { s = s * 6364136223846793005ull + 1442695040888963407ull; return (double)(s >> 11) / (double)(1ull << 53) * 2 - 1; };
    vec3 p(r(), r(), r()); double l = std::sqrt(p.x * p.x + p.y * p.y + p.z * p.z); if (l < 1e-3) { i--; continue; } pts.push_back(p / l); }
  uint64_t first = 0; int diff = 0;
  for (int t : {1, 2, 4, 8, 16, 16, 8, 3}) { 
#ifndef NOTBB
tbb::global_control gc(tbb::global_control::max_allowed_parallelism, t);
#endif
 Manifold m = Manifold::Hull(pts); uint64_t h = hashOf(m); printf("threads=%d tri=%zu hash=%016llx\n", t, m.NumTri(), (unsigned long long)h); if (!first) first = h; else if (h != first) diff++; }
  printf("%s\n", diff ? "DIFFERENT" : "same"); return diff ? 1 : 0;
}
