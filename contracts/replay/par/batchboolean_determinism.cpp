// C04 schedule sampling: BatchBoolean (n-ary intersection and union through the task_group / heap path of csg_tree.cpp)
// of overlapping spheres of one resolution -- partial results of one round tie on NumVert, so the heap's tie-break
// decides the combination order.  One hash per run; exit 1 when runs differ.
#include <cmath>
#include <cstdio>
#include <cstdint>
#include <vector>
#ifndef NOTBB
#include <tbb/global_control.h>
#endif
#include "manifold/manifold.h"
using namespace manifold;
static uint64_t fnv(const void* p, size_t n, uint64_t h) { const unsigned char* c = (const unsigned char*)p; for (size_t i = 0; i < n; i++) { h ^= c[i]; h *= 1099511628211ull; } return h; }
static uint64_t hashOf(const Manifold& m) { MeshGL64 g = m.GetMeshGL64(); uint64_t h = 1469598103934665603ull; h = fnv(g.triVerts.data(), g.triVerts.size() * 8, h); h = fnv(g.vertProperties.data(), g.vertProperties.size() * 8, h); h = fnv(g.faceID.data(), g.faceID.size() * 8, h); return h; }
int main() {
  uint64_t first[2] = {0, 0}; int diff = 0;
  for (int t : {1, 2, 4, 8, 16, 16, 8, 3}) {
#ifndef NOTBB
    tbb::global_control gc(tbb::global_control::max_allowed_parallelism, t);
#endif
    for (int op = 0; op < 2; op++) {
      std::vector<Manifold> s;
      for (int i = 0; i < 8; i++) s.push_back(Manifold::Sphere(1.0, 96).Translate({0.25 * (i % 4), 0.125 * (i / 4), 0.0625 * (i % 2)}));
      Manifold m = Manifold::BatchBoolean(s, op == 0 ? OpType::Intersect : OpType::Add);
      uint64_t h = hashOf(m);
      printf("threads=%d op=%s status=%d tri=%zu hash=%016llx\n", t, op == 0 ? "intersect" : "add", (int)m.Status(), m.NumTri(), (unsigned long long)h);
      if (!first[op]) first[op] = h; else if (h != first[op]) diff++;
    }
  }
  printf("%s\n", diff ? "DIFFERENT" : "same"); return diff ? 1 : 0;
}
