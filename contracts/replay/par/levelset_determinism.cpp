#include <cmath>
#include <cstdio>
#include <cstdint>
#include <vector>
#ifndef NOTBB
#include <tbb/global_control.h>
#endif
#include "manifold/manifold.h"
using namespace manifold;
static uint64_t fnv(const void* p, size_t n, uint64_t h) { const unsigned char* c = (const unsigned char*)p; for (size_t i = 0; i < n; i++) { h ^= c[i]; h *= 1099511628211ull; } return h; }
static uint64_t hashOf(const Manifold& m) { MeshGL64 g = m.GetMeshGL64(); uint64_t h = 1469598103934665603ull; h = fnv(g.triVerts.data(), g.triVerts.size() * 8, h); h = fnv(g.vertProperties.data(), g.vertProperties.size() * 8, h); return h; }
int main() {
  auto sdf = [](vec3 p) { return 0.009 - std::sqrt(p.y * p.y + p.z * p.z) + 0.002 * std::sin(40 * p.x); };
  Box b({-2, -0.012, -0.012}, {2, 0.012, 0.012});
  uint64_t first = 0; int diff = 0;
  for (int t : {1, 2, 4, 8, 16, 16, 8, 3}) {
#ifndef NOTBB
    tbb::global_control gc(tbb::global_control::max_allowed_parallelism, t);
#endif
    Manifold m = Manifold::LevelSet(sdf, b, 0.002); uint64_t h = hashOf(m);
    printf("threads=%d status=%d tri=%zu hash=%016llx\n", t, (int)m.Status(), m.NumTri(), (unsigned long long)h);
    if (!first) first = h; else if (h != first) diff++; }
  printf("%s\n", diff ? "DIFFERENT" : "same"); return diff ? 1 : 0;
}
