// Shared helpers for native replay / differential drivers (real code from /repo).
#pragma once
#include <cstdint>
#include <cstdio>
#include <cstdlib>
#include <cstring>
#include <string>
#include <vector>
struct Rng {
  uint64_t s;
  explicit Rng(uint64_t seed) : s(seed * 0x9E3779B97F4A7C15ull + 0x1234567ull) {}
  uint64_t next() { s ^= s << 13; s ^= s >> 7; s ^= s << 17; return s; }
  uint64_t below(uint64_t n) { return n ? next() % n : 0; }
  int range(int lo, int hi) { return lo + (int)below((uint64_t)(hi - lo + 1)); }
  bool coin() { return next() & 1; }
};
// input records are flat lists of integers / doubles encoded as "a,b,c"
inline std::vector<long long> parse_nums(const char* s) {
  std::vector<long long> v;
  const char* p = s;
  while (*p) {
    while (*p && !(*p == '-' || (*p >= '0' && *p <= '9'))) ++p;
    if (!*p) break;
    char* e;
    v.push_back(strtoll(p, &e, 10));
    p = e;
  }
  return v;
}
inline std::string nums(const std::vector<long long>& v) {
  std::string s;
  for (size_t i = 0; i < v.size(); ++i) s += (i ? "," : "") + std::to_string(v[i]);
  return s;
}
inline void report_fail(const char* check, const std::vector<long long>& in, const std::string& observed) {
  printf("{\"check\":\"%s\",\"ok\":false,\"input\":{\"v\":\"%s\"},\"observed\":\"%s\"}\n", check, nums(in).c_str(), observed.c_str());
  fflush(stdout);
}
inline void report_current(const char* check, const std::vector<long long>& in) {
  // printed BEFORE running a case so that a sanitizer abort still names the input
  printf("{\"check\":\"%s\",\"running\":true,\"input\":{\"v\":\"%s\"}}\n", check, nums(in).c_str());
  fflush(stdout);
}
inline void report_summary(long runs, const char* checks) {
  printf("{\"runs\":%ld,\"checks\":\"%s\"}\n", runs, checks);
  fflush(stdout);
}
