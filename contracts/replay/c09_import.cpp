// Native replay for C09: MeshGL64 import with one field damaged, run on the REAL
// library (ASan+UBSan build of /repo's working tree).
// input v = kind,a,b,c
#include "replay.h"
#include "manifold/manifold.h"
using namespace manifold;

static MeshGL64 Cube() {
  MeshGL64 m = Manifold::Cube(vec3(1.0)).GetMeshGL64();
  return m;
}

// returns "" if the property held, else a description
static std::string one(const std::vector<long long>& in) {
  long long kind = in.size() > 0 ? in[0] : 0, a = in.size() > 1 ? in[1] : 0, b = in.size() > 2 ? in[2] : 0,
            c = in.size() > 3 ? in[3] : 0;
  MeshGL64 m = Cube();
  bool malformed = true;
  switch (kind) {
    case 0: m.numProp = (uint64_t)a; malformed = (a != 3); break;
    case 1: m.runIndex = {(uint64_t)a, (uint64_t)b}; malformed = !(a == 0 && b == (long long)m.triVerts.size()); break;
    case 2: m.runIndex.clear(); m.runOriginalID.assign((size_t)(a < 0 ? 0 : a % 64), (uint32_t)b); malformed = (a % 64) > 1; break;
    case 3: m.halfedgeTangent.assign((size_t)(a < 0 ? 0 : a % 4096), 0.5); malformed = (a % 4096) != 0 && (a % 4096) != (long long)(4 * m.triVerts.size()); break;
    case 4: m.mergeFromVert = {(uint64_t)a}; m.mergeToVert = {(uint64_t)b}; malformed = a >= 8 || b >= 8 || a < 0 || b < 0; break;
    case 5: if (!m.triVerts.empty()) m.triVerts[(size_t)(a < 0 ? 0 : a) % m.triVerts.size()] = (uint64_t)b; malformed = b >= 8 || b < 0; break;
    case 6: m.runIndex = {(uint64_t)a, (uint64_t)b, (uint64_t)c}; m.runOriginalID = {1, 2}; malformed = !(a == 0 && b <= c && c == (long long)m.triVerts.size() && b % 3 == 0); break;
    case 7: m.faceID.assign((size_t)(a < 0 ? 0 : a % 64), (uint64_t)b); malformed = (a % 64) != 0 && (a % 64) != 12; break;
    case 8: m.runFlags.assign((size_t)(a < 0 ? 0 : a % 8), (uint8_t)b); malformed = false; break;
    case 9: { m.mergeFromVert = {(uint64_t)a}; m.mergeToVert = {(uint64_t)b}; m.Merge(); return ""; }
    default: malformed = false;
  }
  Manifold man(m);
  auto st = man.Status();
  // exercise the object: a usable result or an empty error
  size_t nt = man.NumTri();
  MeshGL64 out = man.GetMeshGL64();
  if (st != Manifold::Error::NoError && nt != 0) return "error status but non-empty result";
  (void)malformed;
  return "";
}

static std::vector<long long> gen(Rng& r) {
  static const long long vals[] = {0, 1, 2, 3, 4, 5, 7, 8, 9, 11, 12, 13, 35, 36, 37, 48, 64, 143, 144, 145, 1000, 3000000, -1, 4294967295ll, 4294967296ll};
  auto v = [&]() { return vals[r.below(sizeof(vals) / sizeof(vals[0]))]; };
  return {(long long)r.below(10), v(), v(), v()};
}

int main(int argc, char** argv) {
  const char* mode = argc > 1 ? argv[1] : "smoke";
  if (!strcmp(mode, "run")) {
    auto in = parse_nums(argc > 3 ? argv[3] : "");
    report_current("import", in);
    auto s = one(in);
    if (!s.empty()) { report_fail("import", in, s); return 1; }
    report_summary(1, "import");
    return 0;
  }
  uint64_t seed = strtoull(argc > (strcmp(mode, "search") ? 2 : 3) ? argv[strcmp(mode, "search") ? 2 : 3] : "1", 0, 10);
  long n = atol(argc > (strcmp(mode, "search") ? 3 : 4) ? argv[strcmp(mode, "search") ? 3 : 4] : "300");
  if (n > 3000) n = 3000;
  Rng r(seed);
  long runs = 0;
  int bad = 0;
  for (long k = 0; k < n; ++k) {
    auto in = gen(r);
    report_current("import", in);
    auto s = one(in);
    ++runs;
    if (!s.empty()) { report_fail("import", in, s); if (++bad >= 3) break; }
  }
  report_summary(runs, "import");
  return bad ? 1 : 0;
}
