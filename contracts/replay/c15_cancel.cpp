// C15 native driver: "cancel injected at the k-th check for every k" on the REAL library built with
// -DMANIFOLD_VERIF (hook in execution_impl.h).  For each operation: run once uncancelled counting the
// cancellation checks N, then for k = 1..N inject Cancel() at check k and require the result to be either
// identical to the uncancelled one or an empty Manifold with Error::Cancelled.
// input v = op,k     (k = 0: sweep every k)
#include "replay.h"
#include "manifold/manifold.h"
#include "execution_impl.h"
using namespace manifold;

static bool SameMesh(const MeshGL64& a, const MeshGL64& b) {
  return a.numProp == b.numProp && a.vertProperties == b.vertProperties && a.triVerts == b.triVerts &&
         a.runIndex == b.runIndex && a.faceID == b.faceID && a.halfedgeTangent == b.halfedgeTangent;
}

static Manifold RunOp(int op, ExecutionContext& ctx) {
  switch (op) {
    case 0: return Manifold::Sphere(1.0, 16).WithContext(ctx).Refine(3);
    case 1: return Manifold::Smooth(Manifold::Cube(vec3(1.0)).GetMeshGL64()).WithContext(ctx).Refine(4);
    case 2: return Manifold::Sphere(1.0, 24).WithContext(ctx).RefineToLength(0.2);
    case 3: return (Manifold::Sphere(1.0, 24) + Manifold::Cube(vec3(1.2))).WithContext(ctx).Hull();
    case 4: return ctx.FromMeshGL(Manifold::Sphere(1.0, 24).GetMeshGL64());
    case 5: return (Manifold::Cube(vec3(1.0)) - Manifold::Sphere(0.6, 24)).WithContext(ctx);
    case 6: return ctx.Smooth(Manifold::Sphere(1.0, 12).GetMeshGL64());
    default: return Manifold();
  }
}
static const int kOps = 7;

// returns "" when the property held
static std::string one(int op, long k, long* nChecks) {
  ExecutionContext ref;
  verif_hook::cancelCountdown = 0;
  verif_hook::cancelChecks = 0;
  Manifold full = RunOp(op, ref);
  MeshGL64 fullMesh = full.GetMeshGL64();
  if (full.Status() != Manifold::Error::NoError) return "reference run failed";
  long n = verif_hook::cancelChecks;
  if (nChecks) *nChecks = n;
  if (ref.Progress() != 1.0) return "Progress() != 1 after an uncancelled completion (" + std::to_string(ref.Progress()) + ")";
  long lo = k > 0 ? k : 1, hi = k > 0 ? k : n;
  for (long j = lo; j <= hi; ++j) {
    ExecutionContext ctx;
    verif_hook::cancelCountdown = j;
    Manifold r = RunOp(op, ctx);
    auto st = r.Status();
    MeshGL64 m = r.GetMeshGL64();
    verif_hook::cancelCountdown = 0;
    double pr = ctx.Progress();
    if (!(pr >= 0.0 && pr <= 1.0)) return "Progress() outside [0,1] at k=" + std::to_string(j);
    if (st == Manifold::Error::Cancelled) {
      if (r.NumTri() != 0) return "Cancelled but not empty at k=" + std::to_string(j);
      continue;
    }
    if (st != Manifold::Error::NoError) return "unexpected status " + std::to_string((int)st) + " at k=" + std::to_string(j);
    if (!SameMesh(m, fullMesh))
      return "cancel at check k=" + std::to_string(j) + " of " + std::to_string(n) + ": status NoError but the mesh differs from the uncancelled result (partial result escaped)";
  }
  return "";
}

int main(int argc, char** argv) {
  const char* mode = argc > 1 ? argv[1] : "smoke";
  int bad = 0;
  long runs = 0;
  if (!strcmp(mode, "run")) {
    auto in = parse_nums(argc > 3 ? argv[3] : "");
    int op = in.size() > 0 ? (int)in[0] : 0;
    long k = in.size() > 1 ? in[1] : 0;
    report_current("cancel_sweep", in);
    auto s = one(op, k, nullptr);
    if (!s.empty()) { report_fail("cancel_sweep", in, s); return 1; }
    report_summary(1, "cancel_sweep");
    return 0;
  }
  for (int op = 0; op < kOps; ++op) {
    long n = 0;
    std::vector<long long> in = {op, 0};
    report_current("cancel_sweep", in);
    auto s = one(op, 0, &n);
    runs += n + 1;
    if (!s.empty()) { report_fail("cancel_sweep", in, s); ++bad; }
  }
  report_summary(runs, "cancel_sweep");
  return bad ? 1 : 0;
}
