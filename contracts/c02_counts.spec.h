/* C02 mechanism "Boolean assembles faces ... so start/end counts balance per edge": the per-face side count that
 * sizes the output face table.  For triangle t of an operand: count[t] += |incl(v0)| + |incl(v1)| + |incl(v2)|
 * (CountVerts); for an intersection record (edge eP of P, face fQ of Q, inclusion w): |w| new vertices are added to
 * fQ and to BOTH P-faces that share eP (CountNewVerts; the operand roles swap in the inverted instantiation, the
 * atomic instantiation adds the same amounts).  Nothing else changes. */
#include "halfedge_spec.h"
#ifdef SPEC_CONTRACTS
unsigned long ghost_f;
#endif
#ifdef SPEC_HARNESS
#define SMALL(x) ((x) >= -1000000 && (x) <= 1000000)          /* winding numbers / inclusion counts are small integers */
void h_countverts(void) {
  struct Halfedges he; struct CountVerts f;
  unsigned long nt = nondet_ulong(), nv = nondet_ulong();
  __CPROVER_assume(nt >= 1 && nt <= 700000000ul && nv >= 1 && nv <= 2000000000ul);
  ALLOC_HALFEDGES(he, 3 * nt);
  ALLOC_VIEW(f.count, int, nt);
  ALLOC_VIEW(f.inclusion, int, nv);
  f.halfedges = &he;
  unsigned long t = nondet_ulong();
  __CPROVER_assume(t < nt);
  int v0 = HSTART(&he, 3 * t), v1 = HSTART(&he, 3 * t + 1), v2 = HSTART(&he, 3 * t + 2);
  __CPROVER_assume(0 <= v0 && (unsigned long)v0 < nv && 0 <= v1 && (unsigned long)v1 < nv && 0 <= v2 && (unsigned long)v2 < nv);   /* C01 of the operand */
  int w0 = f.inclusion.ptr_[v0], w1 = f.inclusion.ptr_[v1], w2 = f.inclusion.ptr_[v2];
  __CPROVER_assume(SMALL(w0) && SMALL(w1) && SMALL(w2));
  ghost_f = nondet_ulong(); __CPROVER_assume(ghost_f < nt);
  int old = f.count.ptr_[ghost_f];
  __CPROVER_assume(SMALL(old) && SMALL(f.count.ptr_[t]));
  HARNESS_END;
  CountVerts_call(&f, t);
  int add = (w0 < 0 ? -w0 : w0) + (w1 < 0 ? -w1 : w1) + (w2 < 0 ? -w2 : w2);
  __CPROVER_assert(f.count.ptr_[ghost_f] == (ghost_f == t ? old + add : old), "face t gains the |inclusion| of its three corners; no other face count changes");
}
#define COUNTNEW_HARNESS(NAME, FN, CLOSURE, INVERTED)                                                                     \
void NAME(void) {                                                                                                         \
  struct Halfedges he; struct CLOSURE f; struct Vec_std_array_int_2_0 pq;                                                 \
  unsigned long ntP = nondet_ulong(), ntQ = nondet_ulong(), nx = nondet_ulong();                                          \
  __CPROVER_assume(ntP >= 2 && ntP <= 700000000ul && ntQ >= 1 && ntQ <= 700000000ul && nx >= 1 && nx <= 1000000000ul);    \
  ALLOC_HALFEDGES(he, 3 * ntP);                                                                                           \
  ALLOC_VIEW(f.countP, int, ntP); ALLOC_VIEW(f.countQ, int, ntQ); ALLOC_VIEW(f.i12, int, nx);                             \
  ALLOC_VIEW(pq._base0, struct std_array_int_2, nx);                                                                      \
  f.pq = &pq; f.halfedges = &he;                                                                                          \
  int idx = nondet_int();                                                                                                 \
  __CPROVER_assume(0 <= idx && (unsigned long)idx < nx);                                                                  \
  int eP = pq._base0.ptr_[idx]._M_elems[INVERTED ? 1 : 0], fQ = pq._base0.ptr_[idx]._M_elems[INVERTED ? 0 : 1];           \
  /* an intersection record names a halfedge of the edge operand and a face of the face operand (Intersect12) */         \
  __CPROVER_assume(0 <= eP && (unsigned long)eP < 3 * ntP && 0 <= fQ && (unsigned long)fQ < ntQ);                         \
  int pr = HPAIR(&he, eP);                                                                                                \
  __CPROVER_assume(0 <= pr && (unsigned long)pr < 3 * ntP && pr / 3 != eP / 3);      /* C01: paired, with another triangle */ \
  int w = f.i12.ptr_[idx]; __CPROVER_assume(SMALL(w));                                                                    \
  int inc = w < 0 ? -w : w;                                                                                               \
  /* running face counts stay far below INT_MAX (they are bounded by the number of output halfedges) */                  \
  __CPROVER_assume(SMALL(f.countQ.ptr_[fQ]) && SMALL(f.countP.ptr_[eP / 3]) && SMALL(f.countP.ptr_[pr / 3]));             \
  ghost_f = nondet_ulong();                                                                                               \
  _Bool onQ = nondet_bool();                                                                                              \
  __CPROVER_assume(ghost_f < (onQ ? ntQ : ntP));                                                                          \
  int old = onQ ? f.countQ.ptr_[ghost_f] : f.countP.ptr_[ghost_f];                                                        \
  __CPROVER_assume(SMALL(old));                                                                                           \
  HARNESS_END;                                                                                                            \
  FN(&f, idx);                                                                                                            \
  if (onQ) __CPROVER_assert(f.countQ.ptr_[ghost_f] == (ghost_f == (unsigned long)fQ ? old + inc : old), #FN ": the crossed face gains |inclusion| sides, no other face of that operand changes"); \
  else __CPROVER_assert(f.countP.ptr_[ghost_f] == ((ghost_f == (unsigned long)(eP / 3) || ghost_f == (unsigned long)(pr / 3)) ? old + inc : old), #FN ": both faces sharing the crossing edge gain |inclusion| sides, no other face changes"); \
}
COUNTNEW_HARNESS(h_cn_fwd_seq, CountNew_fwd_seq, CountNewVerts_0_0, 0)
COUNTNEW_HARNESS(h_cn_inv_seq, CountNew_inv_seq, CountNewVerts_1_0, 1)
COUNTNEW_HARNESS(h_cn_fwd_atomic, CountNew_fwd_atomic, CountNewVerts_0_1, 0)
COUNTNEW_HARNESS(h_cn_inv_atomic, CountNew_inv_atomic, CountNewVerts_1_1, 1)
#endif
