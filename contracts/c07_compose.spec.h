/* C01: "every directed edge ... is matched by exactly one opposite edge ... every index is in range" through
 * Compose (disjoint union of leaves by index shifting); C07: property-vertex indices of node i are shifted by the
 * same row offset its property rows are copied to.
 * CsgLeafNode::Compose, per-halfedge lambda: halfedge e of node i becomes halfedge off+e of the result with
 * start + vertex offset, pair + halfedge offset, prop + property-row offset; nothing else is written. */
#include "halfedge_spec.h"
#ifdef SPEC_CONTRACTS
int ghost_g;
/* job Compose_props: the strided ranges the per-node lambda builds for channel q of node i */
#ifndef NUMPROPOUT
#define NUMPROPOUT 4
#endif
double *ghost_old_base, *ghost_new_base;
long ghost_q, ghost_cur_src_off, ghost_src_stride_q, ghost_dst_off_q, ghost_dst_stride_q; int ghost_seen_q;
struct StridedRange_doubleP stub_StridedRange(double *b, double *e, unsigned long stride);
void stub_copy(void) {}
void stub_for_each_n(void) {}
void stub_eager(void) {}
#define LOOPSPEC_Compose_node_0 \
  __CPROVER_assigns(p, ghost_cur_src_off, ghost_src_stride_q, ghost_dst_off_q, ghost_dst_stride_q, ghost_seen_q) \
  __CPROVER_loop_invariant(0 <= p && p <= numProp && \
      (ghost_q < p ? (ghost_seen_q && ghost_src_stride_q == numProp && ghost_dst_stride_q == NUMPROPOUT && \
                      ghost_dst_off_q == (long)NUMPROPOUT * self->propVertIndices->_data[i] + ghost_q) : !ghost_seen_q)) \
  __CPROVER_decreases(numProp - p)
#endif
#ifdef SPEC_CONTRACTS_LATE
#endif
#ifdef SPEC_HARNESS
/* StridedRange(begin, end, stride): recorded per channel; a source range (over the node's properties) is followed
 * by the destination range (over the combined properties) of the same channel */
struct StridedRange_doubleP stub_StridedRange(double *b, double *e, unsigned long stride) {
  struct StridedRange_doubleP r;
  if (__CPROVER_same_object(b, ghost_old_base)) {
    ghost_cur_src_off = (long)(__CPROVER_POINTER_OFFSET(b) / sizeof(double));
    if (ghost_cur_src_off == ghost_q) ghost_src_stride_q = (long)stride;
  } else {
    if (ghost_cur_src_off == ghost_q) { ghost_dst_off_q = (long)(__CPROVER_POINTER_OFFSET(b) / sizeof(double)); ghost_dst_stride_q = (long)stride; ghost_seen_q = 1; }
  }
  return r;
}
void h_compose_props(void) {
  struct Manifold_Impl combined, src;
  struct CsgLeafNode leaf; struct CsgLeafNode *node = &leaf; leaf.pImpl_ = &src;
  unsigned long ni = nondet_ulong(), rows = nondet_ulong(), ROWS = nondet_ulong();
  int i = nondet_int();
  __CPROVER_assume(ni >= 1 && ni <= 1000000ul && 0 <= i && (unsigned long)i < ni && rows >= 1 && rows <= 100000000ul && ROWS <= 200000000ul);
  /* harness shape: 4 node slots (cbmc 6.11 crashes -- SIGSEGV in symex -- when a pointer loaded from a symbolic-length
   * array of pointers is dereferenced); the lambda uses i only as an index, the int index arrays keep a symbolic length */
  __CPROVER_assume(i < 4 && ni >= 4);
  struct CsgLeafNode *slots[4];
  struct std_vector_std_shared_ptr_CsgLeafNode nodes; nodes._size = 4; nodes._cap = 4; nodes._data = slots;
  slots[0] = node; slots[1] = node; slots[2] = node; slots[3] = node;   /* every slot holds a valid leaf; slot i is the one used */
  struct std_vector_int vertIndices, edgeIndices, triIndices, propVertIndices;
#define AV(v) do { (v)._size = ni; (v)._cap = ni; (v)._data = malloc((v)._size * sizeof(int)); __CPROVER_assume((v)._data != 0); } while (0)
  AV(vertIndices); AV(edgeIndices); AV(triIndices); AV(propVertIndices);
  int numProp = nondet_int();
  __CPROVER_assume(1 <= numProp && numProp <= NUMPROPOUT);                     /* numPropOut = max over nodes of NumProp() */
  src.numProp_ = numProp;
  int rowOff = propVertIndices._data[i];
  __CPROVER_assume(rowOff >= 0 && (unsigned long)rowOff + rows <= ROWS);       /* this node's property rows fit behind its offset */
  src.properties_._base0.size_ = (unsigned long)numProp * rows; src.properties_._base0.ptr_ = malloc(src.properties_._base0.size_ * sizeof(double));
  combined.properties_._base0.size_ = (unsigned long)NUMPROPOUT * ROWS; combined.properties_._base0.ptr_ = malloc(combined.properties_._base0.size_ * sizeof(double));
  __CPROVER_assume(src.properties_._base0.ptr_ != 0 && combined.properties_._base0.ptr_ != 0);
  ghost_old_base = src.properties_._base0.ptr_; ghost_new_base = combined.properties_._base0.ptr_;
  ghost_q = nondet_long(); __CPROVER_assume(0 <= ghost_q && ghost_q < numProp);
  ghost_seen_q = 0; ghost_cur_src_off = -1;
  struct Compose_node_closure c; c.nodes = &nodes; c.vertIndices = &vertIndices; c.edgeIndices = &edgeIndices; c.triIndices = &triIndices;
  c.propVertIndices = &propVertIndices; c.numPropOut = NUMPROPOUT; c.combined = &combined;
  HARNESS_END;
  Compose_node(&c, i);
  __CPROVER_assert(ghost_seen_q, "every property channel of the node is copied");
  __CPROVER_assert(ghost_src_stride_q == numProp, "channel q of the node is read with the node's own row width");
  __CPROVER_assert(ghost_dst_stride_q == NUMPROPOUT, "and written with the combined row width");
  __CPROVER_assert(ghost_dst_off_q == (long)NUMPROPOUT * rowOff + ghost_q,
                   "row r of node i lands in row propVertIndices[i] + r of the combined matrix: the SAME row offset its halfedges' property-vertex indices are shifted by");
}
void h_compose_edge(void) {
  struct Manifold_Impl combined, src;
  struct CsgLeafNode leaf; struct CsgLeafNode *node = &leaf; leaf.pImpl_ = &src;
  unsigned long n = nondet_ulong(), N = nondet_ulong();
  int i = nondet_int(), nextVert = nondet_int(), nextEdge = nondet_int(), nextProp = nondet_int(), nv = nondet_int(), NV = nondet_int(), np = nondet_int(), NP = nondet_int();
  unsigned long ni = nondet_ulong();
  __CPROVER_assume(n >= 3 && n <= 1000000000ul && N <= 2000000000ul && ni >= 1 && ni <= 1000000ul && 0 <= i && (unsigned long)i < ni);
  struct std_vector_int edgeIndices; edgeIndices._size = ni; edgeIndices._cap = ni; edgeIndices._data = malloc(edgeIndices._size * sizeof(int)); __CPROVER_assume(edgeIndices._data != 0);
  ALLOC_HALFEDGES(src.halfedge_, n);
  ALLOC_HALFEDGES(combined.halfedge_, N);
  __CPROVER_assume(HALFEDGES_UNIQUE(&combined.halfedge_));           /* call site: `combined` is a fresh local Impl */
  /* call site (Compose): offsets are prefix sums over the preceding nodes; this node's ranges fit in the result */
  __CPROVER_assume(edgeIndices._data[i] == nextEdge && nextEdge >= 0 && (unsigned long)nextEdge + n <= N);
  __CPROVER_assume(nextVert >= 0 && nv >= 1 && NV >= 1 && (long)nextVert + nv <= NV && nextProp >= 0 && np >= 1 && NP >= 1 && (long)nextProp + np <= NP);
  _Bool hasProp = nondet_bool();
  struct Compose_edge_closure c; c.edgeIndices = &edgeIndices; c.i = &i; c.combined = &combined; c.node = &node;
  c.nextVert = &nextVert; c.nextEdge = &nextEdge; c.hasProp = &hasProp; c.nextProp = &nextProp;
  int e = nondet_int();
  __CPROVER_assume(0 <= e && (unsigned long)e < n);
  /* the source leaf satisfies C01 at e: paired, indices in range (leaves are compacted: no tombstones) */
  int p = HPAIR(&src.halfedge_, e);
  __CPROVER_assume(0 <= p && (unsigned long)p < n && p != e && HPAIR(&src.halfedge_, p) == e);
  __CPROVER_assume(0 <= HSTART(&src.halfedge_, e) && HSTART(&src.halfedge_, e) < nv && 0 <= HSTART(&src.halfedge_, p) && HSTART(&src.halfedge_, p) < nv);
  __CPROVER_assume(0 <= HPROP(&src.halfedge_, e) && HPROP(&src.halfedge_, e) < np && 0 <= HPROP(&src.halfedge_, p) && HPROP(&src.halfedge_, p) < np);
  ghost_g = nondet_int();
  __CPROVER_assume(0 <= ghost_g && (unsigned long)ghost_g < N);
  int os = HSTART(&combined.halfedge_, ghost_g), op = HPAIR(&combined.halfedge_, ghost_g), oq = HPROP(&combined.halfedge_, ghost_g);
  HARNESS_END;
  Compose_edge(&c, e);
  Compose_edge(&c, p);
  struct Halfedges *h = &combined.halfedge_;
  int E = nextEdge + e, P = nextEdge + p;
  __CPROVER_assert(HPAIR(h, E) == P && HPAIR(h, P) == E, "the shifted halfedge is paired with the shifted partner (pairing stays an involution)");
  __CPROVER_assert(HSTART(h, E) == HSTART(&src.halfedge_, e) + nextVert && 0 <= HSTART(h, E) && HSTART(h, E) < NV, "start vertex shifted by this node's vertex offset, inside the result's vertex range");
  __CPROVER_assert(hasProp ? HPROP(h, E) == HPROP(&src.halfedge_, e) + nextProp : HPROP(h, E) == nextProp, "property vertex shifted by this node's property-row offset (one shared row for a property-less node)");
  __CPROVER_assert(0 <= HPROP(h, E) && HPROP(h, E) < NP, "property vertex index inside the result's property rows");
  if (ghost_g != E && ghost_g != P)
    __CPROVER_assert(HSTART(h, ghost_g) == os && HPAIR(h, ghost_g) == op && HPROP(h, ghost_g) == oq, "frame: no other halfedge of the result is written");
}
#endif
