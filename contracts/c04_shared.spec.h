/* C04: sort keys used to normalise schedule-dependent sequences must be strict
 * orders that are total on the records that can coexist (distinct keys). */
#ifdef SPEC_HARNESS
#define HE_LT(x, y) Halfedge_lt(&(x), &(y))
void h_Halfedge_order(void) {
  struct Halfedge a, b, c;
  ASSERT_STRICT_ORDER(HE_LT, a, b, c);
  __CPROVER_assert(IMPLIES(a.startVert != b.startVert || a.endVert != b.endVert, HE_LT(a, b) || HE_LT(b, a)),
                   "total on distinct directed edges");
  __CPROVER_assert(HE_LT(a, b) == (a.startVert < b.startVert || (a.startVert == b.startVert && a.endVert < b.endVert)),
                   "lexicographic on (startVert, endVert)");
  HARNESS_END;
}
#define TE_LT(x, y) TmpEdge_lt(&(x), &(y))
void h_TmpEdge_order(void) {
  struct TmpEdge a, b, c;
  ASSERT_STRICT_ORDER(TE_LT, a, b, c);
  __CPROVER_assert(TE_LT(a, b) == (a.first < b.first || (a.first == b.first && a.second < b.second)),
                   "lexicographic on (first, second)");
  HARNESS_END;
}
#define PD_LT(x, y) HalfedgePairData_lt(&(x), &(y))
void h_HalfedgePairData_order(void) {
  struct HalfedgePairData a, b, c;
  ASSERT_STRICT_ORDER(PD_LT, a, b, c);
  __CPROVER_assert(IMPLIES(a.largeVert != b.largeVert || a.tri != b.tri, PD_LT(a, b) || PD_LT(b, a)),
                   "total on distinct (largeVert, tri): one triangle contributes one halfedge per undirected edge");
  HARNESS_END;
}
#endif
