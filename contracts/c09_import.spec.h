/* C09: "For any MeshGL/MeshGL64 (arbitrary lengths, indices, run tables, flags,
 * tangents, non-finite numbers) ... every constructor ... returns normally with
 * either a usable result or an empty Manifold carrying a specific Error; it
 * never reads or writes out of bounds, overflows ..." */
#ifdef SPEC_CONTRACTS
#ifndef NUMPROP
#define NUMPROP 3
#endif
#define LENMAX (1ul << 31) /* stated bound on every MeshGL field length (2^31 elements) */
int ghost_made_empty, ghost_status, ghost_reached_create;
unsigned long ghost_g; /* arbitrary triangle index */
unsigned long ghost_ntri_in; /* triVerts.size()/3 of the input, set by the harness */
void stub_MakeEmpty(struct Manifold_Impl *self, int err) { ghost_made_empty = 1; ghost_status = err; }
_Bool stub_IsCancelled(void) { return nondet_bool(); }
_Bool stub_all_of(void) { return nondet_bool(); }
unsigned stub_ReserveIDs(void) { return nondet_uint(); }
void stub_copy(void) {}
void stub_fill(void) {}
/* hand-off contract: what CreateHalfedges relies on (impl.cpp:366) */
void stub_CreateHalfedges(struct Manifold_Impl *self, struct VecView_linalg_vec_int_3 *triProp, struct VecView_linalg_vec_int_3 *triVert) {
  ghost_reached_create = 1;
  unsigned long nv = self->vertPos_._base0.size_;
  if (ghost_g < triProp->size_) {
    struct linalg_vec_int_3 t = triProp->ptr_[ghost_g];
    __CPROVER_assert(0 <= t.x && (unsigned long)t.x < nv && 0 <= t.y && (unsigned long)t.y < nv && 0 <= t.z && (unsigned long)t.z < nv,
                     "hand-off: every triProp index is a valid vertex");
  }
  __CPROVER_assert(triVert->size_ == 0 || triVert->size_ == triProp->size_, "hand-off: triVert empty or parallel to triProp");
  /* later phases (ReindexFace, sort.cpp) index halfedgeTangent_ by halfedge: empty or 3 per input triangle */
  __CPROVER_assert(self->halfedgeTangent_._base0.size_ == 0 || self->halfedgeTangent_._base0.size_ >= 3 * (ghost_ntri_in),
                   "hand-off: halfedgeTangent_ is empty or holds at least one tangent per halfedge of the input");
  if (ghost_g < triVert->size_) {
    struct linalg_vec_int_3 t = triVert->ptr_[ghost_g];
    __CPROVER_assert(0 <= t.x && (unsigned long)t.x < nv && 0 <= t.y && (unsigned long)t.y < nv && 0 <= t.z && (unsigned long)t.z < nv,
                     "hand-off: every triVert index is a valid vertex");
  }
}
/* prop2vert maps property vertices to position vertices: every entry is a vertex index */
#define ELEMINV_prop2vert(x) (0 <= (x) && (unsigned)(x) < numVert)
#define MG meshGL
#define NVERT64 (NUMPROP == 0 ? 0ul : MG->vertProperties._size / (NUMPROP == 0 ? 1 : NUMPROP))
#define GHOSTS ghost_made_empty, ghost_status, ghost_reached_create
#define NOT_DONE (!ghost_made_empty && !ghost_reached_create)
#define LOOPSPEC_Impl_FromMeshGL64_0 \
  __CPROVER_assigns(i, GHOSTS, __CPROVER_object_whole(prop2vert._data) LOOPTMPS_Impl_FromMeshGL64_0) \
  __CPROVER_loop_invariant(i <= MG->mergeFromVert._size && NOT_DONE) \
  __CPROVER_decreases(MG->mergeFromVert._size - i)
#define LOOPSPEC_Impl_FromMeshGL64_1 \
  __CPROVER_assigns(i, __CPROVER_object_whole(self->vertPos_._base0.ptr_), __CPROVER_object_whole(self->properties_._base0.ptr_)) \
  __CPROVER_loop_invariant(i <= NVERT64 && NVERT64 * NUMPROP <= MG->vertProperties._size) /* floor-division fact stated once: keeps the index arithmetic linear */ \
  __CPROVER_decreases(NVERT64 - i)
#define LOOPSPEC_Impl_FromMeshGL64_2 \
  __CPROVER_assigns(j, __CPROVER_object_whole(self->properties_._base0.ptr_)) \
  __CPROVER_loop_invariant(j <= numProp) \
  __CPROVER_decreases(numProp - j)
#define LOOPSPEC_Impl_FromMeshGL64_3 \
  __CPROVER_assigns(i, __CPROVER_object_whole(self->halfedgeTangent_._base0.ptr_)) \
  __CPROVER_loop_invariant(i <= self->halfedgeTangent_._base0.size_ && self->halfedgeTangent_._base0.size_ * 4 <= MG->halfedgeTangent._size) \
  __CPROVER_decreases(self->halfedgeTangent_._base0.size_ - i)
#define LOOPSPEC_Impl_FromMeshGL64_4 \
  __CPROVER_assigns(i, __CPROVER_object_whole(triRef._base0.ptr_)) \
  __CPROVER_loop_invariant(i <= runOriginalID._size) \
  __CPROVER_decreases(runOriginalID._size - i)
#define LOOPSPEC_Impl_FromMeshGL64_5 \
  __CPROVER_assigns(tri, __CPROVER_object_whole(triRef._base0.ptr_)) \
  __CPROVER_loop_invariant(tri <= runIndex._data[i + 1] / 3) \
  __CPROVER_decreases(runIndex._data[i + 1] / 3 - tri)
#define TRI_OK(t, nv) (0 <= (t).x && (unsigned long)(t).x < (nv) && 0 <= (t).y && (unsigned long)(t).y < (nv) && 0 <= (t).z && (unsigned long)(t).z < (nv))
#define LOOPSPEC_Impl_FromMeshGL64_6 \
  __CPROVER_assigns(i, GHOSTS, triProp._base0.size_, triVert._base0.size_, self->meshRelation_.triRef._base0.size_ LOOPTMPS_Impl_FromMeshGL64_6, \
                    __CPROVER_object_whole(triProp._base0.ptr_), __CPROVER_object_whole(triVert._base0.ptr_), \
                    __CPROVER_object_whole(self->meshRelation_.triRef._base0.ptr_)) \
  __CPROVER_loop_invariant(i <= (unsigned long)numTri && (unsigned long)numTri * 3 <= MG->triVerts._size && NOT_DONE && triProp._base0.size_ <= i && \
     (needsPropMap ? triVert._base0.size_ == triProp._base0.size_ : triVert._base0.size_ == 0) && \
     (triRef._base0.size_ > 0 ? self->meshRelation_.triRef._base0.size_ <= i : 1) && \
     (ghost_g < triProp._base0.size_ ? TRI_OK(triProp._base0.ptr_[ghost_g], (unsigned long)numVert) : 1) && \
     (ghost_g < triVert._base0.size_ ? TRI_OK(triVert._base0.ptr_[ghost_g], (unsigned long)numVert) : 1)) \
  __CPROVER_decreases((unsigned long)numTri - i)
/* same loop contracts for the float / uint32_t instantiation */
#define LOOPSPEC_Impl_FromMeshGL32_0 \
  __CPROVER_assigns(i, GHOSTS, __CPROVER_object_whole(prop2vert._data) LOOPTMPS_Impl_FromMeshGL32_0) \
  __CPROVER_loop_invariant(i <= MG->mergeFromVert._size && NOT_DONE) \
  __CPROVER_decreases(MG->mergeFromVert._size - i)
#define LOOPSPEC_Impl_FromMeshGL32_1 \
  __CPROVER_assigns(i, __CPROVER_object_whole(self->vertPos_._base0.ptr_), __CPROVER_object_whole(self->properties_._base0.ptr_)) \
  __CPROVER_loop_invariant(i <= NVERT64 && NVERT64 * NUMPROP <= MG->vertProperties._size) /* floor-division fact stated once: keeps the index arithmetic linear */ \
  __CPROVER_decreases(NVERT64 - i)
#define LOOPSPEC_Impl_FromMeshGL32_2 \
  __CPROVER_assigns(j, __CPROVER_object_whole(self->properties_._base0.ptr_)) \
  __CPROVER_loop_invariant(j <= numProp) \
  __CPROVER_decreases(numProp - j)
#define LOOPSPEC_Impl_FromMeshGL32_3 \
  __CPROVER_assigns(i, __CPROVER_object_whole(self->halfedgeTangent_._base0.ptr_)) \
  __CPROVER_loop_invariant(i <= self->halfedgeTangent_._base0.size_ && self->halfedgeTangent_._base0.size_ * 4 <= MG->halfedgeTangent._size) \
  __CPROVER_decreases(self->halfedgeTangent_._base0.size_ - i)
#define LOOPSPEC_Impl_FromMeshGL32_4 \
  __CPROVER_assigns(i, __CPROVER_object_whole(triRef._base0.ptr_)) \
  __CPROVER_loop_invariant(i <= runOriginalID._size) \
  __CPROVER_decreases(runOriginalID._size - i)
#define LOOPSPEC_Impl_FromMeshGL32_5 \
  __CPROVER_assigns(tri, __CPROVER_object_whole(triRef._base0.ptr_)) \
  __CPROVER_loop_invariant(tri <= runIndex._data[i + 1] / 3) \
  __CPROVER_decreases(runIndex._data[i + 1] / 3 - tri)
#define LOOPSPEC_Impl_FromMeshGL32_6 \
  __CPROVER_assigns(i, GHOSTS, triProp._base0.size_, triVert._base0.size_, self->meshRelation_.triRef._base0.size_ LOOPTMPS_Impl_FromMeshGL32_6, \
                    __CPROVER_object_whole(triProp._base0.ptr_), __CPROVER_object_whole(triVert._base0.ptr_), \
                    __CPROVER_object_whole(self->meshRelation_.triRef._base0.ptr_)) \
  __CPROVER_loop_invariant(i <= (unsigned long)numTri && (unsigned long)numTri * 3 <= MG->triVerts._size && NOT_DONE && triProp._base0.size_ <= i && \
     (needsPropMap ? triVert._base0.size_ == triProp._base0.size_ : triVert._base0.size_ == 0) && \
     (triRef._base0.size_ > 0 ? self->meshRelation_.triRef._base0.size_ <= i : 1) && \
     (ghost_g < triProp._base0.size_ ? TRI_OK(triProp._base0.ptr_[ghost_g], (unsigned long)numVert) : 1) && \
     (ghost_g < triVert._base0.size_ ? TRI_OK(triVert._base0.ptr_[ghost_g], (unsigned long)numVert) : 1)) \
  __CPROVER_decreases((unsigned long)numTri - i)
#endif

#ifdef SPEC_HARNESS
#define ALLOC_STDVEC(v, T) do { (v)._size = nondet_ulong(); __CPROVER_assume((v)._size <= LENMAX); (v)._cap = (v)._size; \
    (v)._data = (T*)malloc((v)._size * sizeof(T)); __CPROVER_assume((v)._data != 0); } while (0)
void h_import64(void) {
  struct MeshGLP_double_unsigned_long m;
  m.numProp = NUMPROP;
  ALLOC_STDVEC(m.vertProperties, double);
  ALLOC_STDVEC(m.triVerts, unsigned long);
  ALLOC_STDVEC(m.mergeFromVert, unsigned long);
  ALLOC_STDVEC(m.mergeToVert, unsigned long);
  ALLOC_STDVEC(m.runIndex, unsigned long);
  ALLOC_STDVEC(m.runOriginalID, unsigned int);
  ALLOC_STDVEC(m.runTransform, double);
  ALLOC_STDVEC(m.runFlags, unsigned char);
  ALLOC_STDVEC(m.faceID, unsigned long);
  ALLOC_STDVEC(m.halfedgeTangent, double);
  struct Manifold_Impl impl = {0};  /* default-constructed Impl: every Vec empty */
  ghost_made_empty = 0; ghost_status = -1; ghost_reached_create = 0;
  ghost_g = nondet_ulong();   /* arbitrary triangle index (globals are zero-initialised) */
  ghost_ntri_in = m.triVerts._size / 3;
  HARNESS_END; /* vacuity canary sits before the call: the harness makes no assumptions beyond allocation */
  SATISFIABLE(ghost_g > 5);
  Impl_FromMeshGL64(&impl, &m, 0);
  /* error-or-valid: the ladder ends in MakeEmpty(err) or hands a consistent mesh to CreateHalfedges */
  __CPROVER_assert(ghost_made_empty || ghost_reached_create, "ladder returns through MakeEmpty or reaches CreateHalfedges");
  __CPROVER_assert(!(ghost_made_empty && ghost_reached_create), "no MakeEmpty after the hand-off inside the ladder");
  __CPROVER_assert(IMPLIES(ghost_made_empty && ghost_status == 0 /*NoError*/,
                           NUMPROP != 0 && (unsigned)(m.vertProperties._size / (NUMPROP ? NUMPROP : 1)) == 0 && (unsigned)(m.triVerts._size / 3) == 0),
                   "an empty result with NoError only for an input without vertices and triangles");
}
void h_import32(void) {
  struct MeshGLP_float_unsigned_int m;
  m.numProp = NUMPROP;
  ALLOC_STDVEC(m.vertProperties, float);
  ALLOC_STDVEC(m.triVerts, unsigned int);
  ALLOC_STDVEC(m.mergeFromVert, unsigned int);
  ALLOC_STDVEC(m.mergeToVert, unsigned int);
  ALLOC_STDVEC(m.runIndex, unsigned int);
  ALLOC_STDVEC(m.runOriginalID, unsigned int);
  ALLOC_STDVEC(m.runTransform, float);
  ALLOC_STDVEC(m.runFlags, unsigned char);
  ALLOC_STDVEC(m.faceID, unsigned int);
  ALLOC_STDVEC(m.halfedgeTangent, float);
  struct Manifold_Impl impl = {0};  /* default-constructed Impl: every Vec empty */
  ghost_made_empty = 0; ghost_status = -1; ghost_reached_create = 0;
  ghost_g = nondet_ulong();   /* arbitrary triangle index (globals are zero-initialised) */
  ghost_ntri_in = m.triVerts._size / 3;
  HARNESS_END;
  SATISFIABLE(ghost_g > 5);
  Impl_FromMeshGL32(&impl, &m, 0);
  /* error-or-valid: the ladder ends in MakeEmpty(err) or hands a consistent mesh to CreateHalfedges */
  __CPROVER_assert(ghost_made_empty || ghost_reached_create, "ladder returns through MakeEmpty or reaches CreateHalfedges");
  __CPROVER_assert(!(ghost_made_empty && ghost_reached_create), "no MakeEmpty after the hand-off inside the ladder");
  __CPROVER_assert(IMPLIES(ghost_made_empty && ghost_status == 0 /*NoError*/,
                           NUMPROP != 0 && (unsigned)(m.vertProperties._size / (NUMPROP ? NUMPROP : 1)) == 0 && (unsigned)(m.triVerts._size / 3) == 0),
                   "an empty result with NoError only for an input without vertices and triangles");
}
#endif
