/* C07: "property values equal the source's interpolated field"; C08: "the same property values at every triangle
 * corner"; C01: "every index is in range" -- through property compaction (SortGeometry -> CompactProps):
 * unreferenced property rows are dropped and the rest renumbered by a prefix sum.  For an arbitrary halfedge h
 * with old property vertex P = Prop(h):  mark(h) keeps row P;  move(P) copies every channel of old row P to new row
 * S[P];  renumber(h) sets Prop(h) = S[P].  Hence h still reads exactly its own row, and S[P] is a valid row. */
#include "halfedge_spec.h"
#ifdef SPEC_CONTRACTS
#ifndef NUMPROP
#define NUMPROP 3
#endif
long ghost_q;
#define LOOPSPEC_Compact_move_0 \
  __CPROVER_assigns(p, __CPROVER_object_whole(self->properties->_base0.ptr_)) \
  __CPROVER_loop_invariant(0 <= p && p <= NUMPROP && *self->numProp == NUMPROP && \
      (ghost_q < p ? self->properties->_base0.ptr_[(long)NUMPROP * self->propOld2New->_base0.ptr_[oldIdx] + ghost_q] == \
                     self->oldProp->_base0.ptr_[(long)NUMPROP * oldIdx + ghost_q] : 1)) \
  __CPROVER_decreases(NUMPROP - p)
#endif
#ifdef SPEC_HARNESS
void h_compact(void) {
  struct Manifold_Impl impl;
  unsigned long nh = nondet_ulong(), nv = nondet_ulong(), nvNew = nondet_ulong();
  __CPROVER_assume(nh >= 3 && nh <= 1000000000ul && nv >= 1 && nv <= 100000000ul && nvNew <= nv);
  ALLOC_HALFEDGES(impl.halfedge_, nh);
  __CPROVER_assume(HALFEDGES_UNIQUE(&impl.halfedge_));      /* SortGeometry makes the halfedge buffers unique before compaction */
  struct Vec_int_0 keep, S; struct Vec_double_0 props, oldProp;
  ALLOC_VIEW(keep._base0, int, nv);
  ALLOC_VIEW(S._base0, int, nv + 1);
  ALLOC_VIEW(oldProp._base0, double, NUMPROP * nv);
  ALLOC_VIEW(props._base0, double, NUMPROP * nvNew);
  int numProp = NUMPROP;
  int h = nondet_int();
  __CPROVER_assume(0 <= h && (unsigned long)h < nh);
  int P = HPROP(&impl.halfedge_, h);
  __CPROVER_assume(0 <= P && (unsigned long)P < nv);         /* C01 invariant of the mesh being sorted: property indices in range */
  ghost_q = nondet_long(); __CPROVER_assume(0 <= ghost_q && ghost_q < NUMPROP);
  double want = oldProp._base0.ptr_[(long)NUMPROP * P + ghost_q];
  __CPROVER_assume(want == want);
  struct Compact_mark_closure c0; c0.__this = &impl; c0.keep = &keep;
  struct Compact_move_closure c1; c1.properties = &props; c1.oldProp = &oldProp; c1.propOld2New = &S; c1.keep = &keep; c1.numProp = &numProp;
  struct Compact_renumber_closure c2; c2.__this = &impl; c2.propOld2New = &S;
  HARNESS_END;
  Compact_mark(&c0, h);
  __CPROVER_assert(keep._base0.ptr_[P] == 1, "the property vertex a halfedge references is marked as kept");
  /* inclusive_scan(keep) -> S (contract of the scan, c13_scan): S[0] = 0, S[k+1] = S[k] + keep[k], S is monotone with S[nv] = number of new rows */
  __CPROVER_assume(S._base0.ptr_[P] >= 0 && S._base0.ptr_[P + 1] >= 0 && (long)S._base0.ptr_[P + 1] == (long)S._base0.ptr_[P] + (long)keep._base0.ptr_[P] && (long)S._base0.ptr_[P + 1] <= (long)nvNew);
  Compact_move(&c1, P);
  Compact_renumber(&c2, h);
  int N = HPROP(&impl.halfedge_, h);
  __CPROVER_assert(0 <= N && (unsigned long)N < nvNew, "the renumbered property index is a valid row of the compacted matrix");
  __CPROVER_assert(props._base0.ptr_[(long)NUMPROP * N + ghost_q] == want, "after compaction the halfedge still reads exactly its own property row, in every channel");
}
#endif
