/* C01: "every directed edge occurs exactly once and is matched by exactly one opposite edge" -- mechanism
 * "CreateHalfedges pairs directed edges by sorting" (impl.cpp:366).  Local facts under contract:
 *  (1) PrepHalfedges writes, for triangle t and corner i, the directed edge (v[i], v[i+1]) with its property
 *      vertex into slot 3t+i and its 64-bit sort key into edge[3t+i]; nothing else is written;
 *  (2) the key order is the lexicographic order on (forward?, min, max): all backward edges (start > end)
 *      sort before all forward ones, an edge and its opposite get the same rank inside their
 *      halves, and two keys are equal iff they are the same directed edge  (C04: the sorted id sequence is
 *      then determined by the edge multiset, whatever order the triangles were prepared in);
 *  (3) the final per-edge step writes pair(ids[i]) = ids[i+numEdge] and back, start/prop from the record,
 *      or tombstones both halves when marked removed; every other slot is untouched. */
#include "halfedge_spec.h"
#ifdef SPEC_CONTRACTS
int ghost_g;
#endif
#ifdef SPEC_HARNESS

static void prep_common(_Bool useProp) {
  unsigned long nt = nondet_ulong();
  __CPROVER_assume(nt >= 1 && nt <= 700000000ul);   /* 3*nt fits int: CreateHalfedges computes numHalfedge as int */
  struct Vec_unsigned_long_0 edge;
  ALLOC_VIEW(edge._base0, unsigned long, 3 * nt);
  struct CH_setEdge_closure cl; cl.edge = &edge;
  struct VecView_CreateHalfedge he; ALLOC_VIEW(he, struct CreateHalfedge, 3 * nt);
  struct VecView_linalg_vec_int_3 triProp, triVert;
  ALLOC_VIEW(triProp, struct linalg_vec_int_3, nt);
  unsigned long ntv = useProp ? 0 : nt;              /* call site: triVert is empty or as long as triProp */
  ALLOC_VIEW(triVert, struct linalg_vec_int_3, ntv);
  int tri = nondet_int();
  __CPROVER_assume(0 <= tri && (unsigned long)tri < nt);
  struct linalg_vec_int_3 P = triProp.ptr_[tri];
  struct linalg_vec_int_3 V = useProp ? P : triVert.ptr_[tri];
  /* vertex / property indices are non-negative ints (validated by the import ladder, unit c09_import) */
  __CPROVER_assume(V.x >= 0 && V.y >= 0 && V.z >= 0 && P.x >= 0 && P.y >= 0 && P.z >= 0);
  ghost_g = nondet_int();
  __CPROVER_assume(0 <= ghost_g && (unsigned long)ghost_g < 3 * nt);
  struct CreateHalfedge old_he = he.ptr_[ghost_g];
  unsigned long old_key = edge._base0.ptr_[ghost_g];
  HARNESS_END;
  if (useProp) {
    SELFTYPE_Prep_useProp f = {he, triProp, triVert, (void*)&cl};
    Prep_useProp(&f, tri);
  } else {
    SELFTYPE_Prep_useVert f = {he, triProp, triVert, (void*)&cl};
    Prep_useVert(&f, tri);
  }
  int v[3] = {V.x, V.y, V.z}, p[3] = {P.x, P.y, P.z};
  int e = ghost_g;
  if (3 * tri <= e && e < 3 * tri + 3) {
    int i = e - 3 * tri, j = i == 2 ? 0 : i + 1;
    __CPROVER_assert(he.ptr_[e].startVert == v[i] && he.ptr_[e].endVert == v[j], "slot 3t+i holds the directed edge v[i] -> v[i+1]");
    __CPROVER_assert(he.ptr_[e].propVert == p[i], "slot 3t+i carries the property vertex of corner i");
    /* behaviour-level: the key stored for slot 3t+i is the key function applied to ITS edge; what that function must
     * satisfy is job keyorder (any injective key with that order is acceptable, not one bit layout) */
    struct Vec_unsigned_long_0 scratch; ALLOC_VIEW(scratch._base0, unsigned long, 1);
    struct CH_setEdge_closure cs; cs.edge = &scratch;
    CH_setEdge(&cs, 0, v[i], v[j]);
    __CPROVER_assert(edge._base0.ptr_[e] == scratch._base0.ptr_[0], "sort key of slot 3t+i is the key of its own directed edge v[i] -> v[i+1]");
  } else {
    __CPROVER_assert(he.ptr_[e].startVert == old_he.startVert && he.ptr_[e].endVert == old_he.endVert && he.ptr_[e].propVert == old_he.propVert &&
                     edge._base0.ptr_[e] == old_key, "frame: slots of other triangles untouched");
  }
}
void h_prep_prop(void) { prep_common(1); }
void h_prep_vert(void) { prep_common(0); }

/* (2) key order lemma on the real setEdge / comparator lambdas */
void h_keyorder(void) {
  struct Vec_unsigned_long_0 edge;
  ALLOC_VIEW(edge._base0, unsigned long, 2);
  struct CH_setEdge_closure cs; cs.edge = &edge;
  struct CH_keyLess_closure ck; ck.edge = &edge;
  int v0 = nondet_int(), v1 = nondet_int(), w0 = nondet_int(), w1 = nondet_int();
  __CPROVER_assume(v0 >= 0 && v1 >= 0 && w0 >= 0 && w1 >= 0 && v0 != v1 && w0 != w1);
  HARNESS_END;
  CH_setEdge(&cs, 0, v0, v1);
  CH_setEdge(&cs, 1, w0, w1);
  int ia = 0, ib = 1;
  _Bool lt = CH_keyLess(&ck, &ia, &ib), gt = CH_keyLess(&ck, &ib, &ia);
  _Bool fa = v0 < v1, fb = w0 < w1;
  int mina = fa ? v0 : v1, maxa = fa ? v1 : v0, minb = fb ? w0 : w1, maxb = fb ? w1 : w0;
  _Bool spec_lt = (!fa && fb) || (fa == fb && (mina < minb || (mina == minb && maxa < maxb)));
  __CPROVER_assert(lt == spec_lt, "key order == lexicographic (forward?, min vertex, max vertex)");
  __CPROVER_assert((!lt && !gt) == (v0 == w0 && v1 == w1), "keys tie exactly for identical directed edges (so the stable sort leaves only triangle order among duplicates)");
  if (!fa && fb) __CPROVER_assert(lt, "every backward edge sorts before every forward edge: ids[0,numEdge) backward, ids[numEdge,2numEdge) forward");
  /* the i-th backward edge is paired with the i-th forward edge: reversing both edges must not change their relative order */
  struct Vec_unsigned_long_0 edge2; ALLOC_VIEW(edge2._base0, unsigned long, 2);
  struct CH_setEdge_closure cs2; cs2.edge = &edge2;
  struct CH_keyLess_closure ck2; ck2.edge = &edge2;
  CH_setEdge(&cs2, 0, v1, v0);
  CH_setEdge(&cs2, 1, w1, w0);
  if (fa == fb)
    __CPROVER_assert(CH_keyLess(&ck2, &ia, &ib) == lt, "reversing two edges of the same direction keeps their relative order: opposite edges get the same rank in the two halves of the sorted ids");
}

/* (3) final pairing step */
void h_pairup(void) {
  struct Manifold_Impl impl;
  unsigned long ne = nondet_ulong();
  __CPROVER_assume(ne >= 1 && ne <= 1000000000ul);
  unsigned long nh = 2 * ne;
  ALLOC_HALFEDGES(impl.halfedge_, nh);
  __CPROVER_assume(HALFEDGES_UNIQUE(&impl.halfedge_));   /* call site: halfedge_.clear(true); resize_nofill -> fresh unshared buffers */
  struct Vec_CreateHalfedge_0 he; ALLOC_VIEW(he._base0, struct CreateHalfedge, nh);
  struct Vec_int_0 ids; ALLOC_VIEW(ids._base0, int, nh);
  struct Vec_unsigned_char_0 removed; ALLOC_VIEW(removed._base0, unsigned char, nh);
  struct CH_pairUp_closure c; c.__this = &impl; c.halfedge = &he; c.ids = &ids; c.removed = &removed; c.numEdge = (int)ne;
  int i = nondet_int();
  __CPROVER_assume(0 <= i && (unsigned long)i < ne);
  int p0 = ids._base0.ptr_[i], p1 = ids._base0.ptr_[i + ne];
  /* ids is a permutation of [0, 2*numEdge) (sequence + sort / in-place moves): in range, the two halves of edge i differ */
  __CPROVER_assume(0 <= p0 && (unsigned long)p0 < nh && 0 <= p1 && (unsigned long)p1 < nh && p0 != p1);
  ghost_g = nondet_int();
  __CPROVER_assume(0 <= ghost_g && (unsigned long)ghost_g < nh);
  int os = HSTART(&impl.halfedge_, ghost_g), op = HPAIR(&impl.halfedge_, ghost_g), oq = HPROP(&impl.halfedge_, ghost_g);
  _Bool rem = removed._base0.ptr_[p0] != 0;
  HARNESS_END;
  SATISFIABLE(ghost_g == p1 && rem);
  CH_pairUp(&c, i);
  struct Halfedges* h = &impl.halfedge_;
  if (!rem) {
    __CPROVER_assert(HPAIR(h, p0) == p1 && HPAIR(h, p1) == p0, "the two sorted halves of edge i are paired with each other (involution)");
    __CPROVER_assert(HSTART(h, p0) == he._base0.ptr_[p0].startVert && HSTART(h, p1) == he._base0.ptr_[p1].startVert, "start vertex from the prepared record");
    __CPROVER_assert(HPROP(h, p0) == he._base0.ptr_[p0].propVert && HPROP(h, p1) == he._base0.ptr_[p1].propVert, "property vertex from the prepared record");
  } else {
    __CPROVER_assert(HPAIR(h, p0) == -1 && HPAIR(h, p1) == -1 && HSTART(h, p0) == -1 && HSTART(h, p1) == -1, "removed duplicate: both halves become tombstones");
    __CPROVER_assert(HPROP(h, p0) == 0 && HPROP(h, p1) == 0, "removed duplicate: property index reset (stays in range)");
  }
  if (ghost_g != p0 && ghost_g != p1)
    __CPROVER_assert(HSTART(h, ghost_g) == os && HPAIR(h, ghost_g) == op && HPROP(h, ghost_g) == oq, "frame: no other halfedge slot is written");
}
#endif
