/* GENERATED (small table below) -- C20: the array accessors of the C binding copy exactly the named MeshGL field.
 * Every vector field of the mesh gets a DIFFERENT length (base + k), so returning a neighbouring field, or copying
 * with the wrong element size or count, changes the byte count handed to memcpy. */
#ifdef SPEC_CONTRACTS
void *ghost_mc_dst; const void *ghost_mc_src; unsigned long ghost_mc_n; int ghost_mc_calls;
void *stub_memcpy(void *d, const void *s, unsigned long n) { ghost_mc_dst = d; ghost_mc_src = s; ghost_mc_n = n; ghost_mc_calls++; return d; }
#endif
#ifdef SPEC_HARNESS
#define SETV(v, k) do { (v)._size = base + (k); (v)._cap = (v)._size; (v)._data = malloc((v)._size * sizeof(*(v)._data)); __CPROVER_assume((v)._data != 0); } while (0)
#define CASE_LEN(fn, field) __CPROVER_assert(fn((void *)&m) == m.field._size, #fn ": the number of elements of " #field)
#define CASE(fn, field) do { ghost_mc_calls = 0; void *r = fn(mem, (void *)&m); \
    __CPROVER_assert(ghost_mc_calls == 1 && ghost_mc_dst == (void *)mem && r == (void *)mem, #fn ": one copy, into the caller's buffer, which is returned"); \
    __CPROVER_assert(ghost_mc_n == m.field._size * sizeof(*m.field._data), #fn ": copies every element of " #field " (and of no other field) with that field's element size"); } while (0)
void h_meshgl32(void) {
  char mem[8];
  struct MeshGLP_float_unsigned_int m;
  unsigned long base = nondet_ulong();
  __CPROVER_assume(base <= 1000000000ul);
  SETV(m.vertProperties, 1);
  SETV(m.triVerts, 2);
  SETV(m.mergeFromVert, 3);
  SETV(m.mergeToVert, 4);
  SETV(m.runIndex, 5);
  SETV(m.runOriginalID, 6);
  SETV(m.runTransform, 7);
  SETV(m.runFlags, 8);
  SETV(m.faceID, 9);
  SETV(m.halfedgeTangent, 10);
  HARNESS_END;
  CASE(manifold_meshgl_vert_properties, vertProperties);
  CASE(manifold_meshgl_tri_verts, triVerts);
  CASE(manifold_meshgl_merge_from_vert, mergeFromVert);
  CASE(manifold_meshgl_merge_to_vert, mergeToVert);
  CASE(manifold_meshgl_run_index, runIndex);
  CASE(manifold_meshgl_run_original_id, runOriginalID);
  CASE(manifold_meshgl_run_transform, runTransform);
  CASE(manifold_meshgl_face_id, faceID);
  CASE(manifold_meshgl_halfedge_tangent, halfedgeTangent);
  CASE_LEN(manifold_meshgl_face_id_length, faceID);
  CASE_LEN(manifold_meshgl_merge_length, mergeFromVert);
  CASE_LEN(manifold_meshgl_run_flags_length, runFlags);
  CASE_LEN(manifold_meshgl_run_index_length, runIndex);
  CASE_LEN(manifold_meshgl_run_original_id_length, runOriginalID);
  CASE_LEN(manifold_meshgl_run_transform_length, runTransform);
  CASE_LEN(manifold_meshgl_tangent_length, halfedgeTangent);
  CASE_LEN(manifold_meshgl_tri_length, triVerts);
  CASE_LEN(manifold_meshgl_vert_properties_length, vertProperties);
}
void h_meshgl64(void) {
  char mem[8];
  struct MeshGLP_double_unsigned_long m;
  unsigned long base = nondet_ulong();
  __CPROVER_assume(base <= 1000000000ul);
  SETV(m.vertProperties, 1);
  SETV(m.triVerts, 2);
  SETV(m.mergeFromVert, 3);
  SETV(m.mergeToVert, 4);
  SETV(m.runIndex, 5);
  SETV(m.runOriginalID, 6);
  SETV(m.runTransform, 7);
  SETV(m.runFlags, 8);
  SETV(m.faceID, 9);
  SETV(m.halfedgeTangent, 10);
  HARNESS_END;
  CASE(manifold_meshgl64_vert_properties, vertProperties);
  CASE(manifold_meshgl64_tri_verts, triVerts);
  CASE(manifold_meshgl64_merge_from_vert, mergeFromVert);
  CASE(manifold_meshgl64_merge_to_vert, mergeToVert);
  CASE(manifold_meshgl64_run_index, runIndex);
  CASE(manifold_meshgl64_run_original_id, runOriginalID);
  CASE(manifold_meshgl64_run_transform, runTransform);
  CASE(manifold_meshgl64_face_id, faceID);
  CASE(manifold_meshgl64_halfedge_tangent, halfedgeTangent);
  CASE_LEN(manifold_meshgl64_face_id_length, faceID);
  CASE_LEN(manifold_meshgl64_merge_length, mergeFromVert);
  CASE_LEN(manifold_meshgl64_run_flags_length, runFlags);
  CASE_LEN(manifold_meshgl64_run_index_length, runIndex);
  CASE_LEN(manifold_meshgl64_run_original_id_length, runOriginalID);
  CASE_LEN(manifold_meshgl64_run_transform_length, runTransform);
  CASE_LEN(manifold_meshgl64_tangent_length, halfedgeTangent);
  CASE_LEN(manifold_meshgl64_tri_length, triVerts);
  CASE_LEN(manifold_meshgl64_vert_properties_length, vertProperties);
}
#endif
