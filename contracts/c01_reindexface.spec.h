#include "halfedge_spec.h"
#ifdef SPEC_CONTRACTS
extern int ghost_g;   /* arbitrary halfedge index: "for all g" */
extern int ghost_i;   /* arbitrary corner 0..2 */
#define RF_NT(s) ((s)->faceNew2Old.size_)              /* new triangle count */
#define RF_OT(s) ((s)->faceOld2New.size_)              /* old triangle count */
#define RF_OLDE(s, nf, i) (3 * (s)->faceNew2Old.ptr_[nf] + (i))
#define RF_OLDPAIR(s, nf, i) HPAIR((s)->oldHalfedge, RF_OLDE(s, nf, i))
#ifndef TMAX
#define TMAX 100000000
#endif /* 3*numTri must fit int: Halfedges indices are int */
/* preconditions read from the call site Impl::GatherFaces (sort.cpp:540-556) and SortFaces:
 *  - faceNew2Old lists kept (valid) old faces, faceOld2New is its inverse on kept faces
 *  - kept faces only pair with kept faces (removed faces are whole tombstoned triangles) */
#define RF_PRE(s, nf)                                                                          \
  (RF_NT(s) >= 1 && RF_NT(s) <= TMAX && RF_OT(s) >= 1 && RF_OT(s) <= TMAX &&                   \
   HSIZE((s)->halfedge) == 3 * RF_NT(s) && HSIZE((s)->oldHalfedge) == 3 * RF_OT(s) &&          \
   HALFEDGES_UNIQUE((s)->halfedge) &&                                                          \
   ((s)->oldHalfedgeTangent.size_ == 0 ||                                                      \
    ((s)->oldHalfedgeTangent.size_ == 3 * RF_OT(s) && (s)->halfedgeTangent.size_ == 3 * RF_NT(s))) && \
   0 <= (nf) && (unsigned long)(nf) < RF_NT(s) &&                                              \
   0 <= (s)->faceNew2Old.ptr_[nf] && (unsigned long)(s)->faceNew2Old.ptr_[nf] < RF_OT(s) &&    \
   RF_PAIR_OK(s, nf, 0) && RF_PAIR_OK(s, nf, 1) && RF_PAIR_OK(s, nf, 2))
#define RF_PAIR_OK(s, nf, i)                                                                   \
  (0 <= RF_OLDPAIR(s, nf, i) && (unsigned long)RF_OLDPAIR(s, nf, i) < 3 * RF_OT(s) &&          \
   0 <= (s)->faceOld2New.ptr_[RF_OLDPAIR(s, nf, i) / 3] &&                                     \
   (unsigned long)(s)->faceOld2New.ptr_[RF_OLDPAIR(s, nf, i) / 3] < RF_NT(s))
#define SAME4(a, b) ((a).x == (b).x && (a).y == (b).y && (a).z == (b).z && (a).w == (b).w)
#endif
#ifdef SPEC_HARNESS
int ghost_g, ghost_i;
void h_ReindexFace(void) {
  /* shapes (separate heap objects of the stated lengths) are built here; all contents and
   * lengths are unconstrained, the contract's requires clauses restrict values only */
  struct ReindexFace s;
  struct Halfedges hnew, hold;
  unsigned long nt = nondet_ulong(), ot = nondet_ulong();
  __CPROVER_assume(nt >= 1 && nt <= TMAX && ot >= 1 && ot <= TMAX);
  ALLOC_HALFEDGES(hnew, 3 * nt);
  ALLOC_HALFEDGES(hold, 3 * ot);
  s.halfedge = &hnew;
  s.oldHalfedge = &hold;
  ALLOC_VIEW(s.faceNew2Old, int, nt);
  ALLOC_VIEW(s.faceOld2New, int, ot);
  if (nondet_bool()) {
    ALLOC_VIEW(s.oldHalfedgeTangent, struct linalg_vec_double_4, 3 * ot);
    ALLOC_VIEW(s.halfedgeTangent, struct linalg_vec_double_4, 3 * nt);
  } else {
    s.oldHalfedgeTangent.ptr_ = 0; s.oldHalfedgeTangent.size_ = 0;
    s.halfedgeTangent.ptr_ = 0; s.halfedgeTangent.size_ = 0;
  }
  int nf = nondet_int();
  /* contract stated as assume(PRE) / assert(POST) around the call: dfcc's write-set
   * instrumentation ran out of memory on nine symbolic-length arrays (DESIGN 4.1) */
  ghost_g = nondet_int(); ghost_i = nondet_int();
  __CPROVER_assume(RF_PRE(&s, nf) && 0 <= ghost_i && ghost_i < 3 && 0 <= ghost_g);
  _Bool g_in = (unsigned long)ghost_g < 3 * nt;
  int os = g_in ? HSTART(&hnew, ghost_g) : 0, op = g_in ? HPAIR(&hnew, ghost_g) : 0, opr = g_in ? HPROP(&hnew, ghost_g) : 0;
  ReindexFace_call(&s, nf);
  __CPROVER_assert(HSTART(&hnew, 3 * nf + ghost_i) == HSTART(&hold, RF_OLDE(&s, nf, ghost_i)), "start vertex kept");
  __CPROVER_assert(HPROP(&hnew, 3 * nf + ghost_i) == HPROP(&hold, RF_OLDE(&s, nf, ghost_i)), "prop vertex kept");
  __CPROVER_assert(HPAIR(&hnew, 3 * nf + ghost_i) == 3 * s.faceOld2New.ptr_[RF_OLDPAIR(&s, nf, ghost_i) / 3] + RF_OLDPAIR(&s, nf, ghost_i) % 3, "pair re-targeted, slot kept");
  __CPROVER_assert(0 <= HPAIR(&hnew, 3 * nf + ghost_i) && (unsigned long)HPAIR(&hnew, 3 * nf + ghost_i) < 3 * nt, "new pair in range");
  __CPROVER_assert(IMPLIES(g_in && ghost_g / 3 != nf, HSTART(&hnew, ghost_g) == os && HPAIR(&hnew, ghost_g) == op && HPROP(&hnew, ghost_g) == opr), "frame: other triangles untouched");
  /* C08: "the same tangent on every directed edge": the tangent travels with its halfedge */
  if (s.oldHalfedgeTangent.size_ != 0) {
    struct linalg_vec_double_4 tn = s.halfedgeTangent.ptr_[3 * nf + ghost_i], to = s.oldHalfedgeTangent.ptr_[RF_OLDE(&s, nf, ghost_i)];
    __CPROVER_assert(IMPLIES(to.x == to.x && to.y == to.y && to.z == to.z && to.w == to.w, SAME4(tn, to)), "tangent copied from the OLD slot of the same halfedge");
  }
  HARNESS_END;
}
#endif
