/* C01 mechanism "Face2Tri triangulates keeping boundary edge directions": the local (triangle / quad) path.
 * Input: numTri in {1,2} triangles, each a triple of indices INTO the face's boundary-halfedge list; local edge k is
 * corner k%3 -> corner (k+1)%3 of triangle k/3 and is written to output halfedge firstOut + k.
 *  - its start / property vertex are those of boundary halfedge `corner`;
 *  - it is paired with local edge j exactly when j runs the same two corners in the opposite direction (the quad's
 *    diagonal), and then j is paired back with it;
 *  - otherwise it is a boundary edge: left unpaired (-1) and registered as contour2Tri[corner] = its output index,
 *    so that the neighbouring face can be linked later;
 *  - no other output halfedge and no other contour2Tri entry is written. */
#include "halfedge_spec.h"
#ifdef SPEC_HARNESS
#ifndef NUMTRI
#define NUMTRI 2
#endif
void h_local_tris(void) {
  struct Halfedges out; struct VecView_int c2t; struct VecView_Halfedge fh; struct linalg_vec_int_3 tris[2];
  unsigned long nOut = nondet_ulong(), nf = nondet_ulong(), firstTri = nondet_ulong();
  int numTri = NUMTRI;
  __CPROVER_assume( nf >= 3 && nf <= 1000000000ul && nOut <= 2000000000ul && firstTri <= 600000000ul && 3 * (firstTri + numTri) <= nOut);
  ALLOC_HALFEDGES(out, nOut);
  __CPROVER_assume(HALFEDGES_UNIQUE(&out));                 /* Face2Tri builds halfedge_ afresh */
  ALLOC_VIEW(c2t, int, nf);
  ALLOC_VIEW(fh, struct Halfedge, nf);
  int ne = 3 * numTri;
  int S[6], E[6];
  for (int k = 0; k < 6; ++k) {
    int t = k / 3, i = k % 3, j = i == 2 ? 0 : i + 1;
    int *tp = (int *)&tris[t];
    S[k] = tp[i]; E[k] = tp[j];
  }
  for (int k = 0; k < 6; ++k) __CPROVER_assume(k >= ne || (0 <= S[k] && (unsigned long)S[k] < nf));   /* corners are boundary-halfedge indices */
  /* a valid local triangulation (for every pair of local edges a, b -- constant range, so a real "for all"):
   * no triangle repeats a corner; no directed edge occurs twice; at most one edge runs opposite to a given one;
   * two different boundary edges (edges without an opposite) start at different corners */
  _Bool hasRev[6];
  for (int a = 0; a < 6; ++a) {
    hasRev[a] = 0;
    for (int b = 0; b < 6; ++b) if (a < ne && b < ne && S[b] == E[a] && E[b] == S[a]) hasRev[a] = 1;
  }
  for (int a = 0; a < 6; ++a) {
    __CPROVER_assume(a >= ne || S[a] != E[a]);
    for (int b = 0; b < 6; ++b) {
      if (a < ne && b < ne && a != b) {
        __CPROVER_assume(!(S[a] == S[b] && E[a] == E[b]));
        __CPROVER_assume(!(!hasRev[a] && !hasRev[b] && S[a] == S[b]));
        for (int d = 0; d < 6; ++d)
          if (d < ne && d != b) __CPROVER_assume(!(S[b] == E[a] && E[b] == S[a] && S[d] == E[a] && E[d] == S[a]));
      }
    }
  }
  int k = nondet_int(), j = nondet_int();
  __CPROVER_assume(0 <= k && k < ne && 0 <= j && j < ne);
  unsigned long g = nondet_ulong(); __CPROVER_assume(g < nOut);
  int os = HSTART(&out, g), op = HPAIR(&out, g), oq = HPROP(&out, g);
  unsigned long c = nondet_ulong(); __CPROVER_assume(c < nf);
  int oc = c2t.ptr_[c];
  HARNESS_END;
  WriteLocalTriangles(&out, c2t, &fh, firstTri, tris, numTri);
  int firstOut = 3 * (int)firstTri;
  int ok = firstOut + k, oj = firstOut + j;
  __CPROVER_assert(HSTART(&out, ok) == fh.ptr_[S[k]].startVert && HPROP(&out, ok) == fh.ptr_[S[k]].propVert, "output halfedge k starts at (and carries the property vertex of) its corner's boundary halfedge");
  _Bool rev = S[j] == E[k] && E[j] == S[k];
  if (rev) __CPROVER_assert(HPAIR(&out, ok) == oj && HPAIR(&out, oj) == ok, "the two local edges over the same corners in opposite directions (the diagonal) are paired with each other");
  if (HPAIR(&out, ok) == -1) {
    __CPROVER_assert(!rev, "an edge is left unpaired only when no local edge runs opposite to it");
    __CPROVER_assert(c2t.ptr_[S[k]] == ok, "a boundary edge is registered under its corner so the neighbouring face can be linked");
  } else {
    __CPROVER_assert(firstOut <= HPAIR(&out, ok) && HPAIR(&out, ok) < firstOut + ne, "a local pairing stays inside this face's triangles");
  }
  if (g < (unsigned long)firstOut || g >= (unsigned long)(firstOut + ne))
    __CPROVER_assert(HSTART(&out, g) == os && HPAIR(&out, g) == op && HPROP(&out, g) == oq, "frame: no output halfedge outside this face's triangles is written");
  _Bool isCorner = 0;
  for (int q = 0; q < 6; ++q) if (q < ne && (unsigned long)S[q] == c) isCorner = 1;
  if (!isCorner) __CPROVER_assert(c2t.ptr_[c] == oc, "frame: contour2Tri is written only at this face's corners");
}
#endif
