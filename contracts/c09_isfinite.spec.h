/* C09: "non-finite numbers ... either a usable result or an empty Manifold carrying a specific Error": IsFinite() is the
 * predicate behind NonFiniteVertex.  "Checking just the bounding box dimensions is insufficient as it ignores NaNs":
 * the map must reject NaN, +inf and -inf in ANY coordinate. */
#ifdef SPEC_HARNESS
#define FIN(x) ((x) == (x) && (x) != __builtin_inf() && (x) != -__builtin_inf())
void h_isfinite(void) {
  struct IsFinite_and_closure ac; struct IsFinite_map_closure mc;
  struct linalg_vec_double_3 v; _Bool a = nondet_bool(), b = nondet_bool(), c = nondet_bool();
  HARNESS_END;
  SATISFIABLE(FIN(v.x) && FIN(v.y) && !(v.z == v.z));
  _Bool m = IsFinite_map(&mc, v);
  __CPROVER_assert(m == (FIN(v.x) && FIN(v.y) && FIN(v.z)), "a vertex passes exactly when all three coordinates are finite (NaN and both infinities are rejected in every coordinate)");
  __CPROVER_assert(IsFinite_and(&ac, a, b) == (a && b), "combine is logical AND");
  __CPROVER_assert(IsFinite_and(&ac, a, b) == IsFinite_and(&ac, b, a) && IsFinite_and(&ac, IsFinite_and(&ac, a, b), c) == IsFinite_and(&ac, a, IsFinite_and(&ac, b, c)) && IsFinite_and(&ac, 1, a) == a, "commutative, associative, neutral initial value: any reduction order gives the conjunction over all vertices");
}
void h_box_isfinite(void) {
  struct Box b;
  HARNESS_END;
  SATISFIABLE(FIN(b.min.x) && FIN(b.min.y) && FIN(b.min.z) && FIN(b.max.x) && FIN(b.max.y) && !(b.max.z == b.max.z));
  _Bool r = Box_IsFinite(&b);
  __CPROVER_assert(r == (FIN(b.min.x) && FIN(b.min.y) && FIN(b.min.z) && FIN(b.max.x) && FIN(b.max.y) && FIN(b.max.z)), "a box is finite exactly when all six coordinates are (NaN and both infinities rejected in every slot)");
}
#endif
