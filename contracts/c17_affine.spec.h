/* C17: "Translate, Rotate, Scale ... map the solid by the documented point map": Translate(t) is p -> p + t, Scale(v)
 * is p -> (v.x p.x, v.y p.y, v.z p.z).  The 3x4 matrix [c0 c1 c2 | c3] maps p to p.x c0 + p.y c1 + p.z c2 + c3. */
#ifdef SPEC_CONTRACTS
struct CsgNode; struct linalg_mat_double_3_4;
struct CsgNode* stub_Transform(void* self, struct linalg_mat_double_3_4* m);
#endif
#ifdef SPEC_HARNESS
static struct linalg_mat_double_3_4 g_m; static int g_calls; static void* g_self; static struct CsgNode g_ret;
struct CsgNode* stub_Transform(void* self, struct linalg_mat_double_3_4* m) { g_m = *m; g_calls++; g_self = self; return &g_ret; }
#define COL_IS(c, a, b, d) (g_m.c.x == (a) && g_m.c.y == (b) && g_m.c.z == (d))
void h_affine(void) {
  struct CsgNode node; struct linalg_vec_double_3 t;
  __CPROVER_assume(t.x == t.x && t.y == t.y && t.z == t.z);   /* NaN compares unequal to itself; non-finite arguments are rejected later by Impl::Transform / Compose */
  HARNESS_END;
  g_calls = 0;
  struct CsgNode* r = Csg_Translate(&node, &t);
  __CPROVER_assert(g_calls == 1 && g_self == (void*)&node && r == &g_ret, "Translate returns this node transformed once");
  __CPROVER_assert(COL_IS(x, 1.0, 0.0, 0.0) && COL_IS(y, 0.0, 1.0, 0.0) && COL_IS(z, 0.0, 0.0, 1.0), "Translate: the linear part is the identity");
  __CPROVER_assert(COL_IS(w, t.x, t.y, t.z), "Translate: the translation column is t");
  g_calls = 0;
  r = Csg_Scale(&node, &t);
  __CPROVER_assert(g_calls == 1 && g_self == (void*)&node && r == &g_ret, "Scale returns this node transformed once");
  __CPROVER_assert(COL_IS(x, t.x, 0.0, 0.0) && COL_IS(y, 0.0, t.y, 0.0) && COL_IS(z, 0.0, 0.0, t.z), "Scale: the linear part is diag(v)");
  __CPROVER_assert(COL_IS(w, 0.0, 0.0, 0.0), "Scale: no translation");
}
#endif
