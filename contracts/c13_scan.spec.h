/* C13: "Each algorithm of the internal parallel layer ... returns exactly what the corresponding
 * sequential standard algorithm returns, with stable sorts preserving the order of equal keys,
 * for every input length and content and every scheduling." */
#ifdef SPEC_CONTRACTS
/* ---- mergeRec split: stability condition ("equal-keyed elements from the left half must precede those from the right") */
struct verif_Rec *ghost_elem;  /* arbitrary element of the source array: "for all elements" */
#define LESS(a, b) ((a).key < (b).key)
struct verif_Rec *stub_lower_bound(struct verif_Rec *first, struct verif_Rec *last, struct verif_Rec val, struct verif_Less comp) {
  /* assumed: standard postcondition of std::lower_bound on a range partitioned by (x < val) */
  unsigned long k = nondet_ulong();
  __CPROVER_assume(k <= (unsigned long)(last - first));
  struct verif_Rec *r = first + k;
  if (first <= ghost_elem && ghost_elem < last) __CPROVER_assume((ghost_elem < r) == LESS(*ghost_elem, val));
  return r;
}
struct verif_Rec *stub_upper_bound(struct verif_Rec *first, struct verif_Rec *last, struct verif_Rec val, struct verif_Less comp) {
  /* assumed: standard postcondition of std::upper_bound: elements before the result are not greater than val */
  unsigned long k = nondet_ulong();
  __CPROVER_assume(k <= (unsigned long)(last - first));
  struct verif_Rec *r = first + k;
  if (first <= ghost_elem && ghost_elem < last) __CPROVER_assume((ghost_elem < r) == !LESS(val, *ghost_elem));
  return r;
}
void stub_merge(void) {}
void stub_copy(void) {}
int ghost_split_checked;
/* obligations at the point where the two sub-merges [p1,q1)+[p2,q2)->p3 and [q1,r1)+[q2,r2)->q3 are spawned */
#define DROPPED_STMT_mergeRec_0                                                                                   \
  do {                                                                                                            \
    ghost_split_checked = 1;                                                                                      \
    __CPROVER_assert(p1 <= q1 && q1 <= r1 && p2 <= q2 && q2 <= r2, "split points stay inside their runs");         \
    __CPROVER_assert(q3 == p3 + (q1 - p1) + (q2 - p2), "second sub-merge writes right after the first");          \
    __CPROVER_assert((q1 - p1) + (q2 - p2) < length1 + length2 && (r1 - q1) + (r2 - q2) < length1 + length2,      \
                     "both sub-merges are strictly smaller (recursion terminates)");                              \
    if (length1 > length2) { /* pivot src[q1] from the LEFT run opens the second sub-merge */                     \
      if (src + p2 <= ghost_elem && ghost_elem < src + r2)                                                        \
        __CPROVER_assert((ghost_elem < src + q2) == LESS(*ghost_elem, src[q1]),                                   \
                         "stability: right-run elements equal to the left pivot go after it (second sub-merge)"); \
    } else { /* pivot src[q2] from the RIGHT run opens the second sub-merge */                                    \
      if (src + p1 <= ghost_elem && ghost_elem < src + r1)                                                        \
        __CPROVER_assert((ghost_elem < src + q1) == !LESS(src[q2], *ghost_elem),                                  \
                         "stability: left-run elements equal to the right pivot go before it (first sub-merge)"); \
    }                                                                                                             \
  } while (0)
#endif

#ifdef SPEC_HARNESS
void h_mergeRec(void) {
  unsigned long n = nondet_ulong();
  __CPROVER_assume(n >= 2 && n <= (1ul << 40));
  struct verif_Rec *src = malloc(n * sizeof(struct verif_Rec));
  struct verif_Rec *dst = malloc(n * sizeof(struct verif_Rec));
  __CPROVER_assume(src != 0 && dst != 0);
  unsigned long p1 = nondet_ulong(), r1 = nondet_ulong(), r2 = nondet_ulong(), p3 = nondet_ulong();
  /* call shape of mergeSortRec: two adjacent runs [p1,r1) [r1,r2) merged to dest + p3 */
  __CPROVER_assume(p1 <= r1 && r1 <= r2 && r2 <= n && p3 == p1);
  unsigned long gi = nondet_ulong();
  __CPROVER_assume(gi < n);
  ghost_elem = src + gi;
  struct verif_Less comp;
  ghost_split_checked = 0;
  HARNESS_END;
  mergeRec(src, dst, p1, r1, r1, r2, p3, comp);
  __CPROVER_assert(IMPLIES((r1 - p1) != 0 && (r2 - r1) != 0 && (r2 - p1) > 10000, ghost_split_checked), "large merges are split");
}

#ifndef SCAN_N
#define SCAN_N 6
#endif
static int fnz(int a, int b) { return a != 0 ? a : b; }
/* TBB parallel_scan protocol, three pieces R0=[0,c0) R1=[c0,c1) R2=[c1,N): the leftmost piece is
 * final-scanned directly, the others are pre-scanned, joined right-to-left, then final-scanned */
void h_scan_protocol(void) {
  int in[SCAN_N], out[SCAN_N], ref[SCAN_N];
  int init = nondet_int();
  unsigned long c0 = nondet_ulong(), c1 = nondet_ulong();
  __CPROVER_assume(c0 <= c1 && c1 <= SCAN_N);
  /* sequential specification: std::exclusive_scan */
  int acc = init;
  for (int k = 0; k < SCAN_N; ++k) { ref[k] = acc; acc = fnz(acc, in[k]); }
  struct verif_FNZ f;
  struct details_ScanBody_int_intP_intP_verif_FNZ A, B, C;
  A.sum = init; A.identity = 0; A.f = &f; A.input = in; A.output = out;
  struct tbb_detail_split sp;
  B = ScanBody_split(&A, sp);
  C = ScanBody_split(&B, sp);
  struct tbb_blocked_range_size_t R0 = {0, c0}, R1 = {c0, c1}, R2 = {c1, SCAN_N};
  struct tbb_detail_d1_pre_scan_tag pre; struct tbb_detail_d1_final_scan_tag fin;
  HARNESS_END;
  ScanBody_final(&A, &R0, fin);
  ScanBody_pre(&B, &R1, pre);
  ScanBody_pre(&C, &R2, pre);
  ScanBody_reverse_join(&B, &A);   /* B summarises [0,c1) */
  ScanBody_final(&A, &R1, fin);    /* A carries the prefix of R1 */
  ScanBody_assign(&C, &B);
  ScanBody_final(&C, &R2, fin);
  ScanBody_assign(&A, &C);
  for (int k = 0; k < SCAN_N; ++k) __CPROVER_assert(out[k] == ref[k], "parallel exclusive scan equals the sequential scan at every position");
  __CPROVER_assert(A.sum == acc, "final sum equals the sequential total");
}
#endif
