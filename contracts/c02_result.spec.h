/* C09: "A non-NoError Status survives every subsequent operation that consumes the object";
 * C02: "every point ... is inside A+B, A-B or A^B exactly when the corresponding set formula
 *       on 'inside A' and 'inside B' says so" -- at the level of one vertex with winding w. */
#ifdef SPEC_CONTRACTS
int ghost_c1, ghost_c2, ghost_c3, ghost_fell;
#undef EXPORT_LOCAL
#define EXPORT_LOCAL(x) ghost_##x = x
#undef REGION_FALLTHROUGH
#define REGION_FALLTHROUGH ghost_fell = 1
struct Manifold_Impl stub_Impl_default(void) { struct Manifold_Impl r; r.status_ = 0 /*NoError*/; return r; }
#define OP_ADD 0
#define OP_SUBTRACT 1
#define OP_INTERSECT 2
unsigned long ghost_slot;           /* arbitrary output slot: "for all slots" */
struct linalg_vec_double_3 ghost_before, ghost_src;
#define DV_BASE (self->vertR.ptr_[vert])
#define SAME3(a, b) ((a).x == (b).x && (a).y == (b).y && (a).z == (b).z)
#define LOOPSPEC_DuplicateVerts_call_0 \
  __CPROVER_assigns(i, __CPROVER_object_whole(self->vertPosR.ptr_)) \
  __CPROVER_loop_invariant(0 <= i && i <= n && \
      (ghost_slot >= (unsigned long)DV_BASE && ghost_slot < (unsigned long)DV_BASE + (unsigned long)i \
           ? SAME3(self->vertPosR.ptr_[ghost_slot], ghost_src) \
           : SAME3(self->vertPosR.ptr_[ghost_slot], ghost_before))) \
  __CPROVER_decreases(n - i)
#endif
#ifdef SPEC_HARNESS
void h_status_forward(void) {
  struct Boolean3 b;
  struct Manifold_Impl p, q;
  b.inP_ = &p; b.inQ_ = &q;
  char op;
  __CPROVER_assume(op == OP_ADD || op == OP_SUBTRACT || op == OP_INTERSECT);
  ghost_fell = 0;
  struct Manifold_Impl r = Boolean3_Result_head(&b, op);
  __CPROVER_assert(IMPLIES(p.status_ != 0, !ghost_fell && r.status_ == p.status_), "an errored left operand's status is the result's status");
  __CPROVER_assert(IMPLIES(p.status_ == 0 && q.status_ != 0, !ghost_fell && r.status_ == q.status_), "an errored right operand's status is the result's status");
  __CPROVER_assert(IMPLIES(p.status_ == 0 && q.status_ == 0, ghost_fell), "operands without error proceed to the Boolean");
  __CPROVER_assert(IMPLIES(!ghost_fell, r.status_ != 0), "an early return here never yields NoError");
  HARNESS_END;
}
/* the point formulas of the property for a surface vertex of one operand with winding w
 * (0 = outside, 1 = inside) with respect to the other operand */
#define KEEP_P(op, w) ((op) == OP_INTERSECT ? (w) == 1 : (w) == 0)             /* P's vertex survives */
#define KEEP_Q(op, w) ((op) == OP_ADD ? (w) == 0 : (w) == 1)                   /* Q's vertex survives */
void h_inclusion_table(void) {
  struct Boolean3 b; struct Manifold_Impl p, q; b.inP_ = &p; b.inQ_ = &q;
  p.status_ = 0; q.status_ = 0;
  char op;
  __CPROVER_assume(op == OP_ADD || op == OP_SUBTRACT || op == OP_INTERSECT);
  (void)Boolean3_Result_head(&b, op);
  int w = nondet_int();
  __CPROVER_assume(w == 0 || w == 1);
  struct incl_i03_closure k03 = {ghost_c1, ghost_c3};
  struct incl_i30_closure k30 = {ghost_c2, ghost_c3};
  struct incl_i12_closure k12 = {ghost_c3};
  int i03 = incl_i03(&k03, w), i30 = incl_i30(&k30, w);
  __CPROVER_assert(-1 <= i03 && i03 <= 1 && -1 <= i30 && i30 <= 1, "inclusion numbers of 0/1 windings are in {-1,0,1}");
  __CPROVER_assert((i03 != 0) == KEEP_P(op, w), "P's vertex is kept exactly when the set formula says so");
  __CPROVER_assert((i30 != 0) == KEEP_Q(op, w), "Q's vertex is kept exactly when the set formula says so");
  __CPROVER_assert(i03 >= 0, "P's surface keeps its orientation in every operation");
  __CPROVER_assert(IMPLIES(i30 != 0, (i30 < 0) == (op == OP_SUBTRACT)), "Q's surface is reversed exactly in A-B");
  int x = nondet_int();
  __CPROVER_assume(-1 <= x && x <= 1);
  int i12 = incl_i12(&k12, x);
  __CPROVER_assert((i12 != 0) == (x != 0) && (i12 == x) == (op == OP_INTERSECT || x == 0), "new intersection verts: kept iff crossing, sign flipped for Add/Subtract");
  HARNESS_END;
}
void h_Shadows(void) {
  double p = nondet_double(), q = nondet_double(), d = nondet_double();
  __CPROVER_assume(p == p && q == q && d == d);
  __CPROVER_assert(IMPLIES(p != q, Shadows(p, q, d) == (p < q)), "Shadows is p<q away from ties");
  __CPROVER_assert(IMPLIES(d != 0, Shadows(p, q, d) != Shadows(q, p, -d)), "symbolic perturbation is antisymmetric: exactly one of (p shadows q) / (q shadows p)");
  __CPROVER_assert(IMPLIES(p == q, Shadows(p, q, d) == (d < 0)), "ties are broken by the perturbation direction only");
  _Bool s = nondet_bool();
  __CPROVER_assert(withSign(s, p) == (s ? p : -p), "withSign");
  __CPROVER_assert(AbsSum_call(0, 3, -4) == 7, "AbsSum adds magnitudes");
  HARNESS_END;
}
/* DuplicateVerts: vertex `vert` is copied |inclusion| times into [vertR[vert], vertR[vert]+|inclusion|) and nowhere else */
void h_DuplicateVerts(void) {
  struct DuplicateVerts s;
  unsigned long nP = nondet_ulong(), nR = nondet_ulong();
  __CPROVER_assume(nP >= 1 && nP <= (1ul << 30) && nR <= (1ul << 30));
  s.vertPosR.size_ = nR; s.vertPosR.ptr_ = malloc(s.vertPosR.size_ * sizeof(struct linalg_vec_double_3)); __CPROVER_assume(s.vertPosR.ptr_ != 0);
  s.vertPosP.size_ = nP; s.vertPosP.ptr_ = malloc(s.vertPosP.size_ * sizeof(struct linalg_vec_double_3)); __CPROVER_assume(s.vertPosP.ptr_ != 0);
  s.inclusion.size_ = nP; s.inclusion.ptr_ = malloc(s.inclusion.size_ * sizeof(int)); __CPROVER_assume(s.inclusion.ptr_ != 0);
  s.vertR.size_ = nP; s.vertR.ptr_ = malloc(s.vertR.size_ * sizeof(int)); __CPROVER_assume(s.vertR.ptr_ != 0);
  int vert = nondet_int();
  __CPROVER_assume(0 <= vert && (unsigned long)vert < nP);
  int inc = s.inclusion.ptr_[vert], base = s.vertR.ptr_[vert];
  /* exclusive-scan precondition established by Boolean3::Result (boolean_result.cpp:800-808): the slots of this vertex lie inside the output */
  __CPROVER_assume(inc > -1000 && inc < 1000 && base >= 0 && (unsigned long)base + (unsigned long)(inc < 0 ? -inc : inc) <= nR);
  ghost_slot = nondet_ulong();   /* globals are zero-initialised: make the quantified slot arbitrary */
  __CPROVER_assume(ghost_slot < nR);
  struct linalg_vec_double_3 before = s.vertPosR.ptr_[ghost_slot], src = s.vertPosP.ptr_[vert];
  /* positions are NaN-free (IsFinite gate), so == compares bit patterns up to -0 */
  __CPROVER_assume(SAME3(src, src) && SAME3(before, before));
  ghost_before = before; ghost_src = src;
  HARNESS_END;
  SATISFIABLE(ghost_slot > (unsigned long)base && inc > 1);
  DuplicateVerts_call(&s, vert);
  struct linalg_vec_double_3 after = s.vertPosR.ptr_[ghost_slot];
  _Bool mine = ghost_slot >= (unsigned long)base && ghost_slot < (unsigned long)base + (unsigned long)(inc < 0 ? -inc : inc);
  __CPROVER_assert(IMPLIES(mine, after.x == src.x && after.y == src.y && after.z == src.z), "every slot of the vertex receives its position");
  __CPROVER_assert(IMPLIES(!mine, SAME3(after, before)), "no other slot is written (copies of different vertices never overlap)");
}
#endif
