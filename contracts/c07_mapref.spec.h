/* C07: "each triangle of the exported mesh names, through its run's original ID, run transform and
 * face ID, a source mesh and a face of it" -- the Boolean result first carries (0|1, source triangle)
 * and MapTriRef turns that into the source triangle's reference. */
#ifdef SPEC_HARNESS
void h_MapTriRef(void) {
  struct MapTriRef s;
  unsigned long nP = nondet_ulong(), nQ = nondet_ulong();
  __CPROVER_assume(nP >= 1 && nP <= (1ul << 30) && nQ >= 1 && nQ <= (1ul << 30));
  s.triRefP.size_ = nP; s.triRefP.ptr_ = malloc(s.triRefP.size_ * sizeof(struct TriRef)); __CPROVER_assume(s.triRefP.ptr_ != 0);
  s.triRefQ.size_ = nQ; s.triRefQ.ptr_ = malloc(s.triRefQ.size_ * sizeof(struct TriRef)); __CPROVER_assume(s.triRefQ.ptr_ != 0);
  s.offsetQ = nondet_int();
  struct TriRef r;
  /* staged reference written by DuplicateHalfedges / face assembly: meshID in {0,1}, faceID = triangle of that operand */
  __CPROVER_assume((r.meshID == 0 && 0 <= r.faceID && (unsigned long)r.faceID < nP) || (r.meshID == 1 && 0 <= r.faceID && (unsigned long)r.faceID < nQ));
  struct TriRef staged = r;
  struct TriRef src = staged.meshID == 0 ? s.triRefP.ptr_[staged.faceID] : s.triRefQ.ptr_[staged.faceID];
  __CPROVER_assume(0 <= s.offsetQ && s.offsetQ < (1 << 30) && 0 <= src.meshID && src.meshID < (1 << 30));
  HARNESS_END;
  MapTriRef_call(&s, &r);
  __CPROVER_assert(r.originalID == src.originalID && r.faceID == src.faceID && r.coplanarID == src.coplanarID, "original ID, face ID and coplanar grouping are those of the source triangle");
  __CPROVER_assert(r.meshID == (staged.meshID == 0 ? src.meshID : src.meshID + s.offsetQ), "P keeps its mesh IDs, Q's are shifted by offsetQ (instances of one original stay distinct)");
}
#endif
