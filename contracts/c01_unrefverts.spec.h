/* C01: "every vertex is referenced" -- RemoveUnreferencedVerts.  For an arbitrary halfedge e and an arbitrary vertex w:
 * mark(e) sets keep[Start(e)] (if e is live) and leaves every other entry alone; sweep(w) tombstones w iff keep[w] == 0. */
#include "halfedge_spec.h"
#ifdef SPEC_HARNESS
void h_unref(void) {
  struct Manifold_Impl impl;
  unsigned long nh = nondet_ulong(), nv = nondet_ulong();
  __CPROVER_assume(nh >= 3 && nh <= 1000000000ul && nv >= 1 && nv <= 100000000ul);
  ALLOC_HALFEDGES(impl.halfedge_, nh);
  ALLOC_VIEW(impl.vertPos_._base0, struct linalg_vec_double_3, nv);
  struct Vec_int_0 keep; ALLOC_VIEW(keep._base0, int, nv);
  int e = nondet_int(); __CPROVER_assume(0 <= e && (unsigned long)e < nh);
  int sv = HSTART(&impl.halfedge_, e);
  __CPROVER_assume(sv < 0 || (unsigned long)sv < nv);      /* C01 invariant: start vertices in range (or tombstone) */
  unsigned long w = nondet_ulong(); __CPROVER_assume(w < nv);   /* ghost: any vertex */
  int keep_w0 = keep._base0.ptr_[w];
  struct linalg_vec_double_3 pos_w0 = impl.vertPos_._base0.ptr_[w];
  struct Unref_mark_closure c0; c0.__this = &impl; c0.keep = &keep;
  struct Unref_sweep_closure c1; c1.__this = &impl; c1.keep = &keep;
  HARNESS_END;
  SATISFIABLE(sv >= 0 && (unsigned long)sv == w && keep_w0 == 0);
  Unref_mark(&c0, e);
  __CPROVER_assert(IMPLIES(sv >= 0, keep._base0.ptr_[sv] == 1), "the start vertex of a live halfedge is marked as referenced");
  __CPROVER_assert(IMPLIES(!(sv >= 0 && (unsigned long)sv == w), keep._base0.ptr_[w] == keep_w0), "marking writes no other entry (a tombstoned halfedge marks nothing)");
  __CPROVER_assert(__CPROVER_equal(impl.vertPos_._base0.ptr_[w], pos_w0), "marking moves no vertex");
  unsigned long v2 = nondet_ulong(); __CPROVER_assume(v2 < nv && v2 != w);
  Unref_sweep(&c1, (int)v2);
  __CPROVER_assert(__CPROVER_equal(impl.vertPos_._base0.ptr_[w], pos_w0) && keep._base0.ptr_[w] == (sv >= 0 && (unsigned long)sv == w ? 1 : keep_w0), "frame: sweeping one vertex touches no other vertex and no mark");
  int kw = keep._base0.ptr_[w];
  Unref_sweep(&c1, (int)w);
  struct linalg_vec_double_3 p = impl.vertPos_._base0.ptr_[w];
  __CPROVER_assert(IMPLIES(kw == 0, p.x != p.x && p.y != p.y && p.z != p.z), "an unreferenced vertex becomes a NaN tombstone");
  __CPROVER_assert(IMPLIES(kw != 0, __CPROVER_equal(p, pos_w0)), "a referenced vertex keeps its position");
}
#endif
