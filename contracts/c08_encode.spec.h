/* C08 (Merge() re-derives merge vectors for open edges) / C04 (sorted keys):
 * "Vertex indices are non-negative ints, so 31 bits each leaves one bit for
 * direction. Keeping direction in the low bit groups opposing edges together
 * when the encoded values are sorted." */
#ifdef SPEC_CONTRACTS
#define MIN2(a, b) ((a) < (b) ? (a) : (b))
#define MAX2(a, b) ((a) < (b) ? (b) : (a))
#define FNSPEC_EncodeOpenEdge                                                                 \
  __CPROVER_requires(first >= 0 && second >= 0)                                               \
  __CPROVER_ensures((__CPROVER_return_value >> 32) == (unsigned long)MIN2(first, second))     \
  __CPROVER_ensures(((__CPROVER_return_value >> 1) & 0x7FFFFFFFul) == (unsigned long)MAX2(first, second)) \
  __CPROVER_ensures((__CPROVER_return_value & 1ul) == (first > second ? 1ul : 0ul))           \
  __CPROVER_assigns()
#endif
#ifdef SPEC_HARNESS
void h_EncodeOpenEdge(void) { int a, b; EncodeOpenEdge(a, b); }
void h_OpenEdge_roundtrip(void) {
  int a = nondet_int(), b = nondet_int(), c = nondet_int(), d = nondet_int();
  __CPROVER_assume(a >= 0 && b >= 0 && c >= 0 && d >= 0);
  unsigned long e1 = EncodeOpenEdge(a, b), e2 = EncodeOpenEdge(c, d);
  __CPROVER_assert(OpenEdgeFirst(e1) == a, "OpenEdgeFirst recovers the first vertex of the directed edge");
  __CPROVER_assert((e1 == e2) == (a == c && b == d), "encoding is injective on directed edges");
  __CPROVER_assert(((e1 >> 1) == (e2 >> 1)) == ((a == c && b == d) || (a == d && b == c)),
                   "e>>1 identifies the undirected edge: opposing edges group together");
  __CPROVER_assert(IMPLIES(a != b, EncodeOpenEdge(b, a) == (e1 ^ 1ul)), "the reverse edge differs in the direction bit only");
  /* order of encodings is lexicographic in (min, max, direction) */
  int lo1 = a < b ? a : b, hi1 = a < b ? b : a, lo2 = c < d ? c : d, hi2 = c < d ? d : c;
  __CPROVER_assert((e1 < e2) == (lo1 < lo2 || (lo1 == lo2 && (hi1 < hi2 || (hi1 == hi2 && (a > b) < (c > d))))),
                   "sorted order of keys = lexicographic (min, max, direction)");
  HARNESS_END;
}
#endif
