/* C14 — "A collision query against the bounding-volume hierarchy reports a
 * (query, leaf) pair if and only if ..." rests on the radix tree being the
 * binary radix tree of the 64-bit keys (morton || index).  Contracts below are
 * the per-function statements of that (Karras 2012) construction. */
#ifdef SPEC_CONTRACTS
#ifndef NMAX
#define NMAX (1 << 29)
#endif /* Collider ctor: int num_nodes = 2*n-1, and i + 4n must fit int */
#define LM(s, k) ((s)->leafMorton_.ptr_[k])
#define NLEAF(s) ((int)(s)->leafMorton_.size_)
#define KEY64(s, k) ((((unsigned long)LM(s, k)) << 32) | (unsigned long)(unsigned)(k))
/* delta(i,j): common-prefix length of the 64-bit keys, -1 when j is out of range */
#define DELTA(s, i, j) (((j) < 0 || (j) >= NLEAF(s)) ? -1 : __builtin_clzll(KEY64(s, i) ^ KEY64(s, j)))
#define CRT_VALID(s)                                                   \
  (FRESH(s, 1) && (s)->leafMorton_.size_ >= 2 &&                       \
   (s)->leafMorton_.size_ <= NMAX && FRESH((s)->leafMorton_.ptr_, (s)->leafMorton_.size_))

/* "count-leading-zeros is used to find the number of identical highest-order bits" */
#define FNSPEC_PrefixLength_u                                                              \
  __CPROVER_requires(a != b) /* clz(0) is undefined; callers pass distinct keys */        \
  __CPROVER_ensures(0 <= __CPROVER_return_value && __CPROVER_return_value <= 31)          \
  __CPROVER_ensures(((a ^ b) >> (31 - __CPROVER_return_value)) == 1u)                     \
  __CPROVER_assigns()

#define FNSPEC_PrefixLength_ij                                                             \
  __CPROVER_requires(CRT_VALID(self) && 0 <= i && i < NLEAF(self) && i != j)              \
  __CPROVER_ensures(__CPROVER_return_value == DELTA(self, i, j))                           \
  __CPROVER_ensures(-1 <= __CPROVER_return_value && __CPROVER_return_value <= 63)          \
  __CPROVER_assigns()

/* RangeEnd: "Determine direction of range (+1 or -1) ... Compute precise range
 * length with binary search".  P(x) == "leaf i+dir*x shares more than delta_min
 * bits with leaf i".  No symbolic multiplication in the spec (case split on dir). */
#define AT(i, dir, x) ((dir) > 0 ? (i) + (x) : (i) - (x))
#define PR(s, i, dir, cp, x) (DELTA(s, i, AT(i, dir, x)) > (cp))
#define POW2(x) (((x) & ((x)-1)) == 0)
#define DIRN(s, i) (DELTA(s, i, (i) + 1) > DELTA(s, i, (i)-1) ? 1 : -1)
#define FNSPEC_RangeEnd                                                                     \
  __CPROVER_requires(CRT_VALID(self) && 0 <= i && i < NLEAF(self))                          \
  /* sorted distinct 64-bit keys give delta(i,i+1) != delta(i,i-1): lemma job key_lemma */ \
  __CPROVER_requires(DELTA(self, i, i + 1) != DELTA(self, i, i - 1))                        \
  __CPROVER_ensures(0 <= __CPROVER_return_value && __CPROVER_return_value < NLEAF(self))   \
  __CPROVER_ensures(__CPROVER_return_value != i &&                                          \
                    ((__CPROVER_return_value > i) == (DIRN(self, i) > 0)))                  \
  __CPROVER_ensures(DELTA(self, i, __CPROVER_return_value) >                                \
                    DELTA(self, i, i - DIRN(self, i)))                                      \
  __CPROVER_ensures(DELTA(self, i, __CPROVER_return_value + DIRN(self, i)) <=               \
                    DELTA(self, i, i - DIRN(self, i)))                                      \
  __CPROVER_assigns()
#define LOOPSPEC_RangeEnd_0                                                                 \
  __CPROVER_assigns(max_length)                                                             \
  __CPROVER_loop_invariant(128 <= max_length && max_length <= (1 << 30) && POW2(max_length) && \
                           (max_length == 128 || PR(self, i, dir, commonPrefix, max_length >> 2))) \
  __CPROVER_decreases((1 << 30) - max_length)
#define LOOPSPEC_RangeEnd_1                                                                 \
  __CPROVER_assigns(step, length)                                                           \
  __CPROVER_loop_invariant(0 <= step && step <= (1 << 29) && POW2(step) && 0 <= length &&   \
                           length <= max_length - step - step &&     \
                           (length == 0 || PR(self, i, dir, commonPrefix, length)) &&       \
                           (step != 0 || length >= 1) &&                                    \
                           !PR(self, i, dir, commonPrefix, (step > 0 ? length + step + step : length + 1))) \
  __CPROVER_decreases(step)

/* FindSplit: "Find the furthest object that shares more than commonPrefix bits with the first
 * one, using binary search": first <= split < last, and the split leaf does share more bits
 * (maximality of the split needs monotonicity of delta over sorted keys -- lemma key_lemma --
 * and is checked on the whole tree in the bounded unit c14_index) */
#define FNSPEC_FindSplit                                                                       \
  __CPROVER_requires(CRT_VALID(self) && 0 <= first && first < last && last < NLEAF(self))      \
  __CPROVER_ensures(first <= __CPROVER_return_value && __CPROVER_return_value < last)         \
  __CPROVER_ensures(__CPROVER_return_value == first ||                                         \
                    DELTA(self, first, __CPROVER_return_value) > DELTA(self, first, last))     \
  __CPROVER_assigns()
#define LOOPSPEC_FindSplit_0                                                                   \
  __CPROVER_assigns(step, split)                                                               \
  __CPROVER_loop_invariant(first <= split && split < last && 1 <= step && step <= last - first && \
                           (split == first || DELTA(self, first, split) > commonPrefix))      \
  __CPROVER_decreases(step)

/* operator(): "Record parent_child relationships": children are split / split+1, as leaf exactly
 * when they coincide with the range end, and both get this internal node as parent */
#define CRT_VALID_FULL(s)                                                                      \
  (CRT_VALID(s) && (s)->nodeParent_.size_ == 2 * (s)->leafMorton_.size_ - 1 &&                 \
   FRESH((s)->nodeParent_.ptr_, (s)->nodeParent_.size_) &&                                     \
   (s)->internalChildren_.size_ == (s)->leafMorton_.size_ - 1 &&                               \
   FRESH((s)->internalChildren_.ptr_, (s)->internalChildren_.size_))
#define CH1(s, k) ((s)->internalChildren_.ptr_[k].first)
#define CH2(s, k) ((s)->internalChildren_.ptr_[k].second)
#define FNSPEC_CreateRadixTree_call                                                            \
  __CPROVER_requires(CRT_VALID_FULL(self) && 0 <= internal && internal < NLEAF(self) - 1)      \
  __CPROVER_requires(DELTA(self, internal, internal + 1) != DELTA(self, internal, internal - 1)) \
  /* both children are valid nodes, consecutive in leaf order: child1 covers [.., split], child2 [split+1, ..] */ \
  __CPROVER_ensures(0 <= CH1(self, internal) && CH1(self, internal) < 2 * NLEAF(self) - 1 &&   \
                    0 <= CH2(self, internal) && CH2(self, internal) < 2 * NLEAF(self) - 1)     \
  __CPROVER_ensures(CH2(self, internal) / 2 == CH1(self, internal) / 2 + 1)                    \
  __CPROVER_ensures(self->nodeParent_.ptr_[CH1(self, internal)] == 2 * internal + 1 &&         \
                    self->nodeParent_.ptr_[CH2(self, internal)] == 2 * internal + 1)           \
  __CPROVER_assigns(__CPROVER_object_whole(self->nodeParent_.ptr_), __CPROVER_object_whole(self->internalChildren_.ptr_))
#endif

#ifdef SPEC_HARNESS
void h_FindSplit(void) { struct CreateRadixTree *s; int a, b; FindSplit(s, a, b); }
void h_CreateRadixTree_call(void) { struct CreateRadixTree *s; int k; CreateRadixTree_call(s, k); }
void h_RangeEnd(void) {
  struct CreateRadixTree *s;
  int i;
  RangeEnd(s, i);
}
void h_PrefixLength_u(void) {
  struct CreateRadixTree *s;
  unsigned a, b;
  PrefixLength_u(s, a, b);
}
void h_PrefixLength_ij(void) {
  struct CreateRadixTree *s;
  int i, j;
  PrefixLength_ij(s, i, j);
}
#endif
