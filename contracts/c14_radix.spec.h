/* C14 — "A collision query against the bounding-volume hierarchy reports a
 * (query, leaf) pair if and only if ..." rests on the radix tree being the
 * binary radix tree of the 64-bit keys (morton || index).  Contracts below are
 * the per-function statements of that (Karras 2012) construction. */
#ifdef SPEC_CONTRACTS
#define NMAX (1 << 29) /* Collider ctor: int num_nodes = 2*n-1, and i + 4n must fit int */
#define LM(s, k) ((s)->leafMorton_.ptr_[k])
#define NLEAF(s) ((int)(s)->leafMorton_.size_)
#define KEY64(s, k) ((((unsigned long)LM(s, k)) << 32) | (unsigned long)(unsigned)(k))
/* delta(i,j): common-prefix length of the 64-bit keys, -1 when j is out of range */
#define DELTA(s, i, j) (((j) < 0 || (j) >= NLEAF(s)) ? -1 : __builtin_clzll(KEY64(s, i) ^ KEY64(s, j)))
#define CRT_VALID(s)                                                   \
  (FRESH(s, 1) && (s)->leafMorton_.size_ >= 2 &&                       \
   (s)->leafMorton_.size_ <= NMAX && FRESH((s)->leafMorton_.ptr_, (s)->leafMorton_.size_))

/* "count-leading-zeros is used to find the number of identical highest-order bits" */
#define FNSPEC_PrefixLength_u                                                              \
  __CPROVER_requires(a != b) /* clz(0) is undefined; callers pass distinct keys */        \
  __CPROVER_ensures(0 <= __CPROVER_return_value && __CPROVER_return_value <= 31)          \
  __CPROVER_ensures(((a ^ b) >> (31 - __CPROVER_return_value)) == 1u)                     \
  __CPROVER_assigns()

#define FNSPEC_PrefixLength_ij                                                             \
  __CPROVER_requires(CRT_VALID(self) && 0 <= i && i < NLEAF(self) && i != j)              \
  __CPROVER_ensures(__CPROVER_return_value == DELTA(self, i, j))                           \
  __CPROVER_ensures(-1 <= __CPROVER_return_value && __CPROVER_return_value <= 63)          \
  __CPROVER_assigns()
#endif

#ifdef SPEC_HARNESS
void h_PrefixLength_u(void) {
  struct CreateRadixTree *s;
  unsigned a, b;
  PrefixLength_u(s, a, b);
}
void h_PrefixLength_ij(void) {
  struct CreateRadixTree *s;
  int i, j;
  PrefixLength_ij(s, i, j);
}
#endif
