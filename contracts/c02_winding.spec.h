/* C02: "Winding03 flood-fills vertex winding over unbroken edge components" (boolean3.cpp:387).  An edge of A is broken
 * when it crosses a face of B, i.e. when some collision pair names it; the flood fill may only spread a winding number
 * along unbroken edges, and must spread it along every one of them (start < end picks one halfedge per edge). */
#include "halfedge_spec.h"
#ifdef SPEC_CONTRACTS
struct std_array_int_2;
struct std_array_int_2* stub_lower_bound(void);
#endif
#ifdef SPEC_HARNESS
static struct std_array_int_2 *g_begin; static unsigned long g_n, g_it; static int g_edge, g_index;
/* std::lower_bound(begin, end, edge, [index](pair, e){ return pair[index] < e; }) on a range sorted by pair[index]:
 * returns the first position whose key is not less than edge */
struct std_array_int_2* stub_lower_bound(void) {
  g_it = nondet_ulong(); __CPROVER_assume(g_it <= g_n);
  __CPROVER_assume(IMPLIES(g_it < g_n, g_begin[g_it]._M_elems[g_index] >= g_edge));            /* not less at the result */
  __CPROVER_assume(IMPLIES(g_it > 0, g_begin[g_it - 1]._M_elems[g_index] < g_edge));          /* less just before it */
  return g_begin + g_it;
}
void h_w03(void) {
  struct Manifold_Impl a; struct DisjointSets uA;
  unsigned long nh = nondet_ulong(); __CPROVER_assume(nh >= 3 && nh <= 1000000000ul && nh % 3 == 0);
  ALLOC_HALFEDGES(a.halfedge_, nh);
  g_n = nondet_ulong(); __CPROVER_assume(g_n <= 100000000ul);
  struct VecView_std_array_int_2 p1q2; ALLOC_VIEW(p1q2, struct std_array_int_2, g_n);
  g_begin = p1q2.ptr_; g_index = 0;
  int index = 0;
  int edge = nondet_int(); __CPROVER_assume(0 <= edge && (unsigned long)edge < nh); g_edge = edge;
  unsigned long k = nondet_ulong(); __CPROVER_assume(k < g_n || g_n == 0);   /* ghost: any collision pair */
  int start = HSTART(&a.halfedge_, edge), end = HSTART(&a.halfedge_, NEXT3(edge));
  __CPROVER_assume(start >= 0 && end >= 0);   /* operands of a Boolean are finished, compacted meshes: no tombstoned halfedges (SortGeometry removed them) */
  struct W03_edge_closure c; c.a = &a; c.p1q2 = &p1q2; c.index = &index; c.uA = &uA;
  ghost_rec_unite_calls = 0;
  HARNESS_END;
  SATISFIABLE(g_n >= 2 && start < end && k < g_n && p1q2.ptr_[k]._M_elems[0] == edge);
  W03_edge(&c, edge);
  _Bool united = ghost_rec_unite_calls == 1;
  __CPROVER_assert(ghost_rec_unite_calls <= 1 && IMPLIES(united, ghost_rec_unite_self == (void*)&uA), "at most one unite, on the component structure of A");
  __CPROVER_assert(IMPLIES(united, start < end && ((ghost_rec_unite_id1In == (unsigned long)start && ghost_rec_unite_id2In == (unsigned long)end))), "what is united are the two end vertices of this edge");
  __CPROVER_assert(IMPLIES(!(start < end), !united), "each edge is considered once, from its start < end halfedge");
  if (g_n > 0 && k < g_n) {
    /* sortedness of the collision list at the two positions involved (it, k) */
    __CPROVER_assume(IMPLIES(g_it < g_n && g_it <= k, p1q2.ptr_[g_it]._M_elems[0] <= p1q2.ptr_[k]._M_elems[0]));
    __CPROVER_assume(IMPLIES(g_it > 0 && k <= g_it - 1, p1q2.ptr_[k]._M_elems[0] <= p1q2.ptr_[g_it - 1]._M_elems[0]));
    __CPROVER_assert(IMPLIES(p1q2.ptr_[k]._M_elems[0] == edge, !united), "a broken edge (named by some collision pair) never joins components");
  }
  __CPROVER_assert(IMPLIES(start < end && !united, g_it < g_n && p1q2.ptr_[g_it]._M_elems[0] == edge), "an edge is left out only when a collision pair names it");
}
#endif
