/* C13: "Concurrent unite/find on the union-find structure yields the partition a sequential run
 * over the same pairs yields" */
#ifdef SPEC_HARNESS
#define DSU_INIT(ds, buf, n) do { (ds).mData._data = (buf); (ds).mData._size = (n); (ds).mData._cap = (n); \
    for (unsigned k = 0; k < (n); ++k) (buf)[k]._v = k; } while (0)
void h_dsu_seq(void) {
  struct std_atomic_unsigned_long buf[4];
  struct DisjointSets ds;
  DSU_INIT(ds, buf, 4);
  unsigned ref[4] = {0, 1, 2, 3};  /* reference partition: ref[x] = class label */
  for (int s = 0; s < 3; ++s) {
    unsigned long a = nondet_ulong(), b = nondet_ulong();
    __CPROVER_assume(a < 4 && b < 4);
    unsigned long root = DisjointSets_unite(&ds, a, b);
    unsigned la = ref[a], lb = ref[b];
    for (int k = 0; k < 4; ++k) if (ref[k] == lb) ref[k] = la;
    __CPROVER_assert(root < 4, "unite returns an element");
  }
  HARNESS_END;
  unsigned long x = nondet_ulong(), y = nondet_ulong();
  __CPROVER_assume(x < 4 && y < 4);
  __CPROVER_assert((DisjointSets_find(&ds, x) == DisjointSets_find(&ds, y)) == (ref[x] == ref[y]), "find agrees with the reference partition");
  __CPROVER_assert(DisjointSets_same(&ds, x, y) == (ref[x] == ref[y]), "same agrees with the reference partition");
  __CPROVER_assert(DisjointSets_find(&ds, DisjointSets_find(&ds, x)) == DisjointSets_find(&ds, x), "find returns a root");
}
struct std_atomic_unsigned_long cbuf[3];
struct DisjointSets cds;
unsigned long ca, cb, cc, cd;
int done1, done2;
void h_dsu_conc(void) {
  DSU_INIT(cds, cbuf, 3);
  ca = nondet_ulong(); cb = nondet_ulong(); cc = nondet_ulong(); cd = nondet_ulong();
  __CPROVER_assume(ca < 3 && cb < 3 && cc < 3 && cd < 3);
#ifdef CONC_FIXED
  __CPROVER_assume(ca == 0 && cb == 1 && cc == 0 && cd == 2);
#endif
  done1 = 0; done2 = 0;
  HARNESS_END;
  __CPROVER_ASYNC_1: { DisjointSets_unite(&cds, ca, cb); done1 = 1; }
  __CPROVER_ASYNC_2: { DisjointSets_unite(&cds, cc, cd); done2 = 1; }
  __CPROVER_assume(done1 && done2);
  /* sequential result of the same two pairs (either order gives the same partition) */
  unsigned ref[3] = {0, 1, 2};
  { unsigned la = ref[ca], lb = ref[cb]; for (int k = 0; k < 3; ++k) if (ref[k] == lb) ref[k] = la; }
  { unsigned la = ref[cc], lb = ref[cd]; for (int k = 0; k < 3; ++k) if (ref[k] == lb) ref[k] = la; }
  unsigned long x = nondet_ulong(), y = nondet_ulong();
  __CPROVER_assume(x < 3 && y < 3);
  __CPROVER_assert(DisjointSets_same(&cds, x, y) == (ref[x] == ref[y]), "concurrent unites yield the sequential partition");
}
#endif
