/* C05: "copy-on-write storage is unobservable": making one owner unique never writes or frees the
 * buffer the other owners still see, and leaves this owner with a private buffer (count 1). */
#include "halfedge_spec.h"
#ifdef SPEC_CONTRACTS
void stub_copy(void) {}
void stub_fill(void) {}
#endif
#ifdef SPEC_HARNESS
#define MK_SHARED(v, n, c) do { ALLOC_SHAREDVEC(v, n); (v).count_->_v = (c); } while (0)
void h_MakeUnique(void) {
  struct Vec_int_1 v, other;
  unsigned long n = nondet_ulong(), g = nondet_ulong();
  int c = nondet_int();
  __CPROVER_assume(n >= 1 && n <= (1ul << 32) && g < n && c >= 1 && c <= 1000000);
  MK_SHARED(v, n, c);
  other = v;                       /* a second owner looking at the same buffer and count (when c > 1) */
  int *oldbuf = v._base0.ptr_;
  struct std_atomic_int *oldcount = v.count_;
  int seen = oldbuf[g];
  HARNESS_END;
  SharedVec_MakeUnique(&v);
  __CPROVER_assert(v.count_ != 0 && v.count_->_v == 1, "after MakeUnique this owner's count is 1");
  __CPROVER_assert(v._base0.size_ == n, "length is preserved");
  if (c > 1) {
    __CPROVER_assert(v._base0.ptr_ != oldbuf && v.count_ != oldcount, "a shared owner gets a private buffer and a private count");
    __CPROVER_assert(oldcount->_v == c - 1, "the shared count drops by exactly one");
    __CPROVER_assert(__CPROVER_r_ok(other._base0.ptr_, n * sizeof(int)) && other._base0.ptr_[g] == seen, "the buffer the other owners see is neither freed nor written");
    __CPROVER_assert(__CPROVER_rw_ok(v._base0.ptr_, n * sizeof(int)), "the private buffer holds n elements");
  } else {
    __CPROVER_assert(v._base0.ptr_ == oldbuf && v.count_ == oldcount && oldbuf[g] == seen, "a unique owner is left untouched");
  }
}
void h_share(void) {
  struct Vec_int_1 a, b;
  unsigned long na = nondet_ulong(), nb = nondet_ulong();
  int ca = nondet_int(), cb = nondet_int();
  __CPROVER_assume(na <= (1ul << 32) && nb <= (1ul << 32) && ca >= 1 && ca <= 1000000 && cb >= 1 && cb <= 1000000);
  MK_SHARED(a, na, ca);
  MK_SHARED(b, nb, cb);
  struct std_atomic_int *bcount = b.count_;
  int *bbuf = b._base0.ptr_;
  HARNESS_END;
  SharedVec_share(&a, &b);   /* a = b */
  __CPROVER_assert(a._base0.ptr_ == bbuf && a.count_ == bcount && a._base0.size_ == nb, "assignment shares the source's buffer and count");
  __CPROVER_assert(bcount->_v == cb + 1, "the shared count records the new owner");
  __CPROVER_assert(b._base0.ptr_ == bbuf && b._base0.size_ == nb, "the source is unchanged");
}
void h_Halfedges_MakeUnique(void) {
  struct Halfedges h;
  unsigned long n = nondet_ulong();
  __CPROVER_assume(n >= 1 && n <= (1ul << 30));
  ALLOC_HALFEDGES(h, n);
  __CPROVER_assume(h.start_.count_->_v >= 1 && h.start_.count_->_v <= 1000 && h.paired_.count_->_v >= 1 && h.paired_.count_->_v <= 1000 &&
                   h.propVert_.count_->_v >= 1 && h.propVert_.count_->_v <= 1000);
  HARNESS_END;
  Halfedges_MakeUnique(&h);
  __CPROVER_assert(HALFEDGES_UNIQUE(&h), "after Halfedges::MakeUnique all three arrays are privately owned (writers may proceed)");
  __CPROVER_assert(h.start_._base0.size_ == n && h.paired_._base0.size_ == n && h.propVert_._base0.size_ == n, "lengths preserved");
}
#endif
