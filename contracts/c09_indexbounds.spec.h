/* C09 / C01: "IsManifold gate on import", "every index is in range": Impl::IsIndexInBounds reduces the triangles to
 * (min index, max index) and accepts iff min >= 0 and max < NumVert().  transform_reduce may combine in any order
 * and grouping, so the facts that make that test a bound on EVERY index are lemmas over the two lambdas:
 *   map(tri)      = (smallest, largest) of the three indices;
 *   combine(a, b) = (min of mins, max of maxes): an upper/lower bound of both arguments, commutative, associative,
 *                   idempotent -- the result of the reduction does not depend on how TBB splits and joins (C04).
 * By induction over any reduction tree, result[0] <= every index <= result[1], with equality attained. */
#ifdef SPEC_HARNESS
#define EQ2(p, q) ((p).x == (q).x && (p).y == (q).y)
void h_minmax(void) {
  struct IIB_combine_closure cc; struct IIB_map_closure mc;
  struct linalg_vec_int_3 t; struct linalg_vec_int_2 a, b, c;
  HARNESS_END;
  struct linalg_vec_int_2 m = IIB_map(&mc, t);
  __CPROVER_assert(m.x <= t.x && m.x <= t.y && m.x <= t.z && (m.x == t.x || m.x == t.y || m.x == t.z), "map: first component is the smallest vertex index of the triangle");
  __CPROVER_assert(m.y >= t.x && m.y >= t.y && m.y >= t.z && (m.y == t.x || m.y == t.y || m.y == t.z), "map: second component is the largest vertex index of the triangle");
  struct linalg_vec_int_2 ab = IIB_combine(&cc, a, b), ba = IIB_combine(&cc, b, a);
  __CPROVER_assert(ab.x <= a.x && ab.x <= b.x && (ab.x == a.x || ab.x == b.x), "combine: the minimum of the two minima");
  __CPROVER_assert(ab.y >= a.y && ab.y >= b.y && (ab.y == a.y || ab.y == b.y), "combine: the maximum of the two maxima");
  __CPROVER_assert(EQ2(ab, ba), "combine is commutative (join order does not matter)");
  struct linalg_vec_int_2 l = IIB_combine(&cc, IIB_combine(&cc, a, b), c), r = IIB_combine(&cc, a, IIB_combine(&cc, b, c));
  __CPROVER_assert(EQ2(l, r), "combine is associative (split points do not matter)");
  struct linalg_vec_int_2 init = { 2147483647, (-2147483647 - 1) };
  struct linalg_vec_int_2 ia = IIB_combine(&cc, init, a);
  __CPROVER_assert(IMPLIES(a.x <= a.y, EQ2(ia, a)), "the initial value (INT_MAX, INT_MIN) is neutral");
}
#endif
