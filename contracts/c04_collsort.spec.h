/* C04: "every schedule-dependent sequence is normalised": the edge-face collision records p1q2 come out of the
 * parallel collider in arrival order; Intersect12_ sorts them with this comparator.  The sorted sequence is
 * independent of the arrival order iff the comparator is a strict weak order whose ties are exactly the identical
 * records (each (edge, face) pair is tested, hence recorded, at most once).  Winding03_ additionally binary-searches
 * the sorted records by edge index, so that must be the primary key. */
#ifdef SPEC_HARNESS
#define LESS(FN, x, y) FN(&c, (x), (y))
#define COLLSORT_HARNESS(NAME, FN, IDX)                                                                              \
void NAME(void) {                                                                                                    \
  struct Vec_std_array_int_2_0 recs; unsigned long n = nondet_ulong();                                               \
  __CPROVER_assume(n >= 1 && n <= 1000000000ul);                                                                     \
  recs._base0.size_ = n; recs._base0.ptr_ = malloc(recs._base0.size_ * sizeof(struct std_array_int_2)); __CPROVER_assume(recs._base0.ptr_ != 0); \
  int index = IDX;                                   /* call site: forward ? 0 : 1 */                                \
  struct collsort_bwd_closure c;   /* one closure type: both instantiations are the same lambda */ c.p1q2 = &recs; c.index = &index;                                                   \
  unsigned long a = nondet_ulong(), b = nondet_ulong(), d = nondet_ulong();                                          \
  __CPROVER_assume(a < n && b < n && d < n);                                                                         \
  HARNESS_END;                                                                                                       \
  struct std_array_int_2 ra = recs._base0.ptr_[a], rb = recs._base0.ptr_[b];                                        \
  _Bool ab = LESS(FN, a, b), ba = LESS(FN, b, a), bd = LESS(FN, b, d), ad = LESS(FN, a, d);                          \
  __CPROVER_assert(!LESS(FN, a, a), #FN ": irreflexive");                                                            \
  __CPROVER_assert(!(ab && ba), #FN ": asymmetric");                                                                 \
  __CPROVER_assert(IMPLIES(ab && bd, ad), #FN ": transitive");                                                       \
  __CPROVER_assert((!ab && !ba) == (ra._M_elems[0] == rb._M_elems[0] && ra._M_elems[1] == rb._M_elems[1]), #FN ": two records tie exactly when they are the same (edge, face) pair, so the sorted order does not depend on arrival order"); \
  __CPROVER_assert(IMPLIES(ab, ra._M_elems[IDX] <= rb._M_elems[IDX]), #FN ": the edge index is the primary key (records of one edge are contiguous, as the binary search in Winding03_ needs)"); \
}
COLLSORT_HARNESS(h_collsort_fwd, collsort_fwd, 0)
COLLSORT_HARNESS(h_collsort_bwd, collsort_bwd, 1)
#endif
