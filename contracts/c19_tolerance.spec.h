/* C19: "SetTolerance reports max(t, epsilon) and tolerance never drops below epsilon." */
#ifdef SPEC_HARNESS
void h_SetTolerance(void) {
  struct Manifold self;
  struct Manifold_Impl impl;
  double t = nondet_double();
  __CPROVER_assume(t == t && impl.tolerance_ == impl.tolerance_ && impl.epsilon_ == impl.epsilon_);
  __CPROVER_assume(impl.tolerance_ >= impl.epsilon_);    /* invariant established by SetEpsilon: tolerance_ = max(tolerance_, epsilon_) */
  double eps = impl.epsilon_;
  HARNESS_END;
  (void)SetTolerance_region(&self, &impl, t);
  __CPROVER_assert(impl.tolerance_ == (t > eps ? t : eps), "the resulting tolerance is max(t, epsilon)");
  __CPROVER_assert(impl.tolerance_ >= impl.epsilon_ && impl.epsilon_ == eps, "tolerance never drops below epsilon; epsilon is untouched");
}
#endif
