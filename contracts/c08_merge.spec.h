/* C09: "Malformed input gives an error Status, never undefined behaviour" -- MeshGL::Merge() on arbitrary field
 * contents: the validation ladder must establish, BEFORE the first indexed access, that every entry of
 * mergeFromVert / mergeToVert / triVerts is a vertex index; the merge-table loop then stays in bounds.
 * all_of is used through its contract (std::all_of): a true result establishes the predicate for every element
 * of the range -- recorded as a ghost flag per validated container and assumed at each later element read
 * (type-refinement style, DESIGN section 2 "element invariant"). */
#ifdef SPEC_CONTRACTS
#ifndef NUMPROP
#define NUMPROP 3
#endif
unsigned int *ghost_from_data, *ghost_to_data, *ghost_tri_data;
_Bool ghost_valid_from, ghost_valid_to, ghost_valid_tri;
struct lambda_sort_1_closure ghost_pred;          /* the predicate object the real code passed to all_of */
_Bool lambda_sort_1(struct lambda_sort_1_closure *self, unsigned int v);
_Bool stub_all_of(unsigned int *b, unsigned int *e, struct lambda_sort_1_closure pred) {
  _Bool r = nondet_bool();
  if (r) {
    ghost_pred = pred;
    if (b == ghost_from_data) ghost_valid_from = 1;
    if (b == ghost_to_data) ghost_valid_to = 1;
    if (b == ghost_tri_data) ghost_valid_tri = 1;
  }
  return r;
}
void stub_iota(void) {}
#define ELEMINV_mergeFromVert(x) (!ghost_valid_from || lambda_sort_1(&ghost_pred, (x)))
#define ELEMINV_mergeToVert(x) (!ghost_valid_to || lambda_sort_1(&ghost_pred, (x)))
#define ELEMINV_triVerts(x) (!ghost_valid_tri || lambda_sort_1(&ghost_pred, (x)))
/* merge table: every entry is a vertex index (iota start, then validated mergeToVert values) */
#define ELEMINV_merge(x) ((x) >= 0 && (unsigned long)(x) < numVertIn)
unsigned long ghost_nv;
#define ELEMINV_merge_l(x) ((x) >= 0 && (unsigned long)(x) < ghost_nv)
/* sorted-edge keys: both encoded endpoints are vertex indices (OpenEdgeFirst(key) later indexes vertProperties) */
#define ELEMINV_edges(k) ((unsigned long)((k) >> 32) < ghost_nv && (unsigned long)(((k) >> 1) & 0x7FFFFFFFu) < ghost_nv)
#define LOOPSPEC_Merge32_head_0 \
  __CPROVER_assigns(i, __CPROVER_object_whole(merge._data) LOOPTMPS_Merge32_head_0) \
  __CPROVER_loop_invariant(i <= mesh->mergeFromVert._size) \
  __CPROVER_decreases(mesh->mergeFromVert._size - i)
int ghost_fell_through;
#undef REGION_FALLTHROUGH
#define REGION_FALLTHROUGH (ghost_fell_through = 1)
#endif
#ifdef SPEC_HARNESS
#define ALLOCV(v, T, n) do { (v)._size = (n); (v)._cap = (n); (v)._data = (T *)malloc((v)._size * sizeof(T)); __CPROVER_assume((v)._data != 0); } while (0)
void h_merge_head(void) {
  struct MeshGLP_float_unsigned_int mesh;
  unsigned long nvp = nondet_ulong(), nt = nondet_ulong(), nf = nondet_ulong(), nto = nondet_ulong();
  __CPROVER_assume(nvp <= 1000000000ul && nt <= 1000000000ul && nf <= 1000000000ul && nto <= 1000000000ul);
  mesh.numProp = nondet_uint();
  __CPROVER_assume(mesh.numProp == NUMPROP || mesh.numProp < 3);      /* one channel count per job (symbolic division is out of reach) */
  ALLOCV(mesh.vertProperties, float, nvp);
  ALLOCV(mesh.triVerts, unsigned int, nt);
  ALLOCV(mesh.mergeFromVert, unsigned int, nf);
  ALLOCV(mesh.mergeToVert, unsigned int, nto);
  ghost_from_data = mesh.mergeFromVert._data; ghost_to_data = mesh.mergeToVert._data; ghost_tri_data = mesh.triVerts._data;
  ghost_valid_from = 0; ghost_valid_to = 0; ghost_valid_tri = 0; ghost_fell_through = 0;
  HARNESS_END;
  SATISFIABLE(nf > 0 && mesh.numProp == NUMPROP);
  (void)Merge32_head(&mesh);
  /* memory safety of every access in the region is the set of generic pointer obligations; in addition: */
  if (ghost_fell_through) {
    __CPROVER_assert(mesh.numProp >= 3 && nf == nto, "Merge proceeds only with numProp >= 3 and merge vectors of equal length");
    __CPROVER_assert(ghost_valid_from && ghost_valid_to && ghost_valid_tri, "Merge proceeds only after mergeFromVert, mergeToVert AND triVerts were all validated against NumVert");
  }
}
void h_merge_edges(void) {
  struct MeshGLP_float_unsigned_int mesh;
  unsigned long nt = nondet_ulong();
  ghost_nv = nondet_ulong();
  __CPROVER_assume(nt >= 1 && nt <= 700000000ul && ghost_nv >= 1 && ghost_nv <= 2147483647ul);   /* vertex indices are ints */
  ALLOCV(mesh.triVerts, unsigned int, 3 * nt);
  struct std_vector_int merge; ALLOCV(merge, int, ghost_nv);
  struct Vec_unsigned_long_0 edges; edges._base0.size_ = 3 * nt; edges._base0.ptr_ = (unsigned long *)malloc(edges._base0.size_ * sizeof(unsigned long)); __CPROVER_assume(edges._base0.ptr_ != 0);
  int next[3] = {1, 2, 0};                         /* call site: const int next[3] = {1, 2, 0} */
  struct Merge32_edges_closure c; c.edges = &edges; c.merge = &merge; c.mesh = &mesh; c.next = &next;
  /* established by the head (job merge_head_*): triVerts validated against NumVert */
  ghost_valid_tri = 1; ghost_pred.numVertIn = ghost_nv;
  unsigned long tri = nondet_ulong();
  __CPROVER_assume(tri < nt);
  HARNESS_END;
  Merge32_edges(&c, tri);
  /* obligations: every access in bounds (generic pointer checks) and ELEMINV_edges asserted at each key write */
  __CPROVER_assert(1, "see element-invariant and pointer obligations");
}
#endif
