/* C04: "Results are bit-identical across schedules, thread counts and backends"; C01 mechanism "CreateHalfedges ...
 * removes opposed duplicate triangles".  MANIFOLD_PAR=1 only: the sorted edge positions [0, numEdge) are cut into
 * ranges whose length depends on tbb's max_concurrency(); each range is processed independently.  The result does not
 * depend on the cut points only if (a) the ranges tile [0, numEdge) in order and (b) no cut separates two equal
 * directed edges (a group of duplicates is always handled by one task). */
#ifdef SPEC_CONTRACTS
struct Vec_CreateHalfedge_0 *ghost_he; struct Vec_int_0 *ghost_ids;
int ghost_numEdge, ghost_prev_end; _Bool ghost_pushes;
#define ELEMINV_ids(x) (0 <= (x) && (x) < 2 * ghost_numEdge)      /* ids is a permutation of the halfedge indices */
struct std_pair_int_int;
struct Vec_std_pair_int_int_0;
void stub_push_range(struct Vec_std_pair_int_int_0 *v, struct std_pair_int_int *r);
#define LOOPSPEC_CH_ranges_0 \
  __CPROVER_assigns(end, ghost_prev_end, ghost_pushes LOOPTMPS_CH_ranges_0) \
  __CPROVER_loop_invariant(0 <= end && end <= numEdge && ghost_prev_end == end && (end == 0 || ghost_pushes) && numEdge == ghost_numEdge && 1 <= increment && increment <= numEdge) \
  __CPROVER_decreases(numEdge - end)
#define LOOPSPEC_CH_ranges_1 \
  __CPROVER_assigns(end) \
  __CPROVER_loop_invariant(start < end && end <= numEdge) \
  __CPROVER_decreases(numEdge - end)
#endif
#ifdef SPEC_HARNESS
#define HE(k) (ghost_he->_base0.ptr_[k])
void stub_push_range(struct Vec_std_pair_int_int_0 *v, struct std_pair_int_int *r) {
  ghost_pushes = 1;
  __CPROVER_assert(r->first == ghost_prev_end && r->first < r->second && r->second <= ghost_numEdge, "the ranges tile [0, numEdge): each starts where the previous one ended and is non-empty");
  if (r->second < ghost_numEdge) {
    int x = ghost_ids->_base0.ptr_[r->second - 1], y = ghost_ids->_base0.ptr_[r->second];
    __CPROVER_assume(ELEMINV_ids(x) && ELEMINV_ids(y));
    __CPROVER_assert(!(HE(x).startVert == HE(y).startVert && HE(x).endVert == HE(y).endVert),
                     "no range boundary separates two equal directed edges (a duplicate group is never split between tasks)");
  }
  ghost_prev_end = r->second;
}
void h_ranges(void) {
  struct Manifold_Impl impl; struct Vec_CreateHalfedge_0 he; struct Vec_int_0 ids; struct Vec_std_pair_int_int_0 ranges;
  struct Vec_linalg_vec_int_3_0 tp, tv;
  int numEdge = nondet_int(), increment = nondet_int();
  __CPROVER_assume(1 <= numEdge && numEdge <= 500000000 && 1 <= increment && increment <= numEdge);   /* call site: min(max(numEdge/threads/2, 1024), numEdge) */
  he._base0.size_ = 2 * (unsigned long)numEdge; he._base0.ptr_ = malloc(he._base0.size_ * sizeof(struct CreateHalfedge));
  ids._base0.size_ = 2 * (unsigned long)numEdge; ids._base0.ptr_ = malloc(ids._base0.size_ * sizeof(int));
  __CPROVER_assume(he._base0.ptr_ != 0 && ids._base0.ptr_ != 0);
  ghost_he = &he; ghost_ids = &ids; ghost_numEdge = numEdge; ghost_prev_end = 0; ghost_pushes = 0;
  HARNESS_END;
  CH_ranges(&impl, he, ids, numEdge, increment, ranges, &tp, &tv);
  __CPROVER_assert(ghost_prev_end == numEdge && ghost_pushes, "the last range ends at numEdge: every edge position belongs to exactly one range");
}
#endif
