/* C09: "a non-NoError Status survives every subsequent operation" -- for the Boolean: whichever path
 * Boolean3::Result takes (operands empty or not, any op), an operand that carries an error makes the result
 * carry that error (the left operand's first). */
#ifdef SPEC_CONTRACTS
struct Manifold_Impl;
struct Manifold_Impl stub_Impl_default(void);
#endif
#ifdef SPEC_HARNESS
struct Manifold_Impl stub_Impl_default(void) { struct Manifold_Impl r; r.status_ = 0; return r; }
void h_status_survives(void) {
  struct Boolean3 b;
  struct Manifold_Impl p, q;
  b.inP_ = &p; b.inQ_ = &q;
  char op;
  __CPROVER_assume(op == 0 || op == 1 || op == 2);
  /* representation invariant of every Impl (C01: "either reports a non-NoError Status and is empty"): MakeEmpty(error) */
  __CPROVER_assume(IMPLIES(p.status_ != 0, p.halfedge_.start_._base0.size_ == 0));
  __CPROVER_assume(IMPLIES(q.status_ != 0, q.halfedge_.start_._base0.size_ == 0));
  HARNESS_END;
  SATISFIABLE(p.status_ == 0 && q.status_ != 0 && p.halfedge_.start_._base0.size_ == 0);
  struct Manifold_Impl r = Boolean3_Result_skel(&b, op);
  __CPROVER_assert(IMPLIES(p.status_ != 0, r.status_ == p.status_), "an errored left operand's status is the result's status on every path");
  __CPROVER_assert(IMPLIES(p.status_ == 0 && q.status_ != 0, r.status_ == q.status_), "an errored right operand's status is the result's status on every path (also when the left operand is a valid empty solid)");
}
#endif
