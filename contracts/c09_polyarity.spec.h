/* C09: "For any ... polygon set ... every constructor ... returns normally with either a usable result or an empty
 * Manifold carrying a specific Error; it never reads or writes out of bounds ... loops forever"; C17: "invalid
 * arguments give InvalidConstruction".  A contour with fewer than three vertices bounds no area: Extrude made triangles
 * that repeat a vertex from it (heap overflow downstream), an empty one did not terminate (finding 9). */
#ifdef SPEC_CONTRACTS
int ghost_invalid, ghost_fell;
struct Manifold stub_Invalid(void);
#undef REGION_FALLTHROUGH
#define REGION_FALLTHROUGH (ghost_fell = 1)
#endif
#ifdef SPEC_HARNESS
struct Manifold stub_Invalid(void) { struct Manifold m; ghost_invalid++; return m; }
#ifndef NP
#define NP 3
#define NV 4
#endif
#define FINITE(x) ((x) == (x) && (x) != __builtin_inf() && (x) != -__builtin_inf())
static struct linalg_vec_double_2 pts[NP][NV];
static struct std_vector_linalg_vec_double_2 polys[NP];
static unsigned long mk_polys(struct std_vector_std_vector_linalg_vec_double_2* cs) {
  unsigned long n = nondet_ulong(); __CPROVER_assume(n >= 1 && n <= NP);
  for (int i = 0; i < NP; i++) { unsigned long s = nondet_ulong(); __CPROVER_assume(s <= NV); polys[i]._data = pts[i]; polys[i]._size = s; polys[i]._cap = NV; }
  cs->_data = polys; cs->_size = n; cs->_cap = NP;
  return n;
}
void h_extrude_arity(void) {
  struct std_vector_std_vector_linalg_vec_double_2 cs; unsigned long n = mk_polys(&cs);
  unsigned long k = nondet_ulong(); __CPROVER_assume(k < n);
  double h = nondet_double(), twist = nondet_double(); int div = nondet_int(); struct linalg_vec_double_2 st;
  __CPROVER_assume(FINITE(h) && h > 0 && FINITE(twist) && FINITE(st.x) && FINITE(st.y) && div >= 0 && div < 1000);
  _Bool all_ok = 1; for (int i = 0; i < NP; i++) if ((unsigned long)i < n && polys[i]._size < 3) all_ok = 0;
  ghost_invalid = 0; ghost_fell = 0;
  HARNESS_END;
  SATISFIABLE(n == 2 && polys[0]._size == 4 && polys[1]._size == 1);
  (void)M_Extrude_head(&cs, h, div, twist, st);
  __CPROVER_assert(IMPLIES(polys[k]._size < 3, ghost_invalid == 1 && !ghost_fell), "Extrude of a polygon set with a contour of fewer than three vertices returns Invalid() before anything is generated");
  __CPROVER_assert(IMPLIES(all_ok, ghost_invalid == 0 && ghost_fell), "Extrude of contours with at least three vertices each proceeds");
}
#endif
