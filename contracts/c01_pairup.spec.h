/* C01: "every directed edge occurs exactly once and is matched by exactly one opposite edge" -- along a partially
 * retained edge the Boolean pairs start records with end records: PairUp must emit, for k = 0 .. n/2-1, one halfedge from
 * a START record to an END record, consuming every record exactly once (indices k and k + n/2 partition 0 .. n-1). */
#ifdef SPEC_CONTRACTS
struct EdgePos; struct Halfedge; struct std_vector_EdgePos;
struct EdgePos* stub_partition(void);
void stub_stable_sort(void);
unsigned long ghost_k, ghost_emitted; int ghost_ek_start, ghost_ek_end;
#define LOOPSPEC_PairUp_edges_0 \
  __CPROVER_assigns(i, ghost_emitted, ghost_ek_start, ghost_ek_end) \
  __CPROVER_loop_invariant(i <= nEdges && ghost_emitted == i && \
      (ghost_k < i ? (ghost_ek_start == edgePos->_data[ghost_k].vert && ghost_ek_end == edgePos->_data[ghost_k + nEdges].vert) : 1)) \
  __CPROVER_decreases(nEdges - i)
#endif
#ifdef SPEC_HARNESS
static struct std_vector_EdgePos *g_v; static unsigned long g_half;
/* std::partition(begin, end, isStart): a permutation that puts the START records first; the manifoldness precondition
 * (DEBUG_ASSERTs of PairUp: an even number of records, as many starts as ends) makes the boundary the middle.
 * The permutation is abstracted to "arbitrary contents with this shape", instantiated at the two positions the
 * obligation about emission k reads. */
static void shape(void) {
  if (g_half == 0) return;
  struct EdgePos a, b; a.isStart = 1; b.isStart = 0;
  g_v->_data[ghost_k] = a; g_v->_data[ghost_k + g_half] = b;
}
struct EdgePos* stub_partition(void) { shape(); return g_v->_data + g_half; }
/* std::stable_sort inside one half: a permutation of that half -- every record stays in its START / END class */
void stub_stable_sort(void) { shape(); }
void stub_emit(void* f, struct Halfedge e) { if (ghost_emitted == ghost_k) { ghost_ek_start = e.startVert; ghost_ek_end = e.endVert; } ghost_emitted++; }
void h_pairup(void) {
  struct std_vector_EdgePos v; unsigned long n = nondet_ulong();
  __CPROVER_assume(n <= 200000000ul && n % 2 == 0);
  v._data = malloc(n * sizeof(struct EdgePos)); __CPROVER_assume(v._data != 0); v._size = n; v._cap = n;
  g_v = &v; g_half = n / 2;
  ghost_k = nondet_ulong(); __CPROVER_assume(n == 0 ? ghost_k == 0 : ghost_k < n / 2);
  ghost_emitted = 0;
  struct lambda_at_repo_src_boolean_result_cpp_369_22 f;
  HARNESS_END;
  PairUp_edges(&v, f);
  __CPROVER_assert(ghost_emitted == n / 2, "one halfedge per pair of records");
  if (n > 0) {
    __CPROVER_assert(v._data[ghost_k].isStart && !v._data[ghost_k + n / 2].isStart, "emission k reads a START record and an END record");
    __CPROVER_assert(ghost_ek_start == v._data[ghost_k].vert && ghost_ek_end == v._data[ghost_k + n / 2].vert, "the emitted halfedge runs from the START record's vertex to the END record's vertex");
  }
}
#endif
