/* C15: "Progress() ... is monotone non-decreasing within one operation, never exceeds 1, and equals 1 after an
 * uncancelled completion".  execution_impl.cpp, ResetForStaticFactory: "Done counters reset before totals so an
 * observer never reads Progress > 1.0 (it may briefly read 0)".
 * The hook that the lowering places before every atomic operation of the resetting thread runs an OBSERVER: a call
 * of the real ExecutionContext::Progress() on the same context (the observer's own two loads are taken as one step). */
#ifdef SPEC_CONTRACTS
struct ExecutionContext;
struct ExecutionContext *G_ec;
int ghost_in_observer, ghost_observations;
double EC_Progress(struct ExecutionContext *self);
static void observe(void) {
  if (ghost_in_observer || G_ec == 0) return;
  ghost_in_observer = 1;
  double p = EC_Progress(G_ec);
  __CPROVER_assert(p >= 0.0 && p <= 1.0, "an observer that reads Progress() at any point of the counter reset sees a value in [0,1]");
  ghost_observations++;
  ghost_in_observer = 0;
}
#define ATOMIC_ACCESS_HOOK() observe()
#endif
#ifdef SPEC_HARNESS
/* state between operations: 0 <= done <= total (every completed or cancelled op leaves it so: c15_balance, c15_phases) */
#define CTX_OK(c) ((c).donePhases._v >= 0 && (c).donePhases._v <= (c).totalPhases._v && (c).doneBooleans._v >= 0 && (c).doneBooleans._v <= (c).totalBooleans._v)
void h_reset_observed(void) {
  struct ExecutionContext_Impl ctx; struct ExecutionContext ec; ec.impl_ = &ctx;
  __CPROVER_assume(CTX_OK(ctx));
  int phases = nondet_int();
  __CPROVER_assume(phases >= 0);                      /* kPhasesPerFromMesh / Smooth / LevelSet are positive constants */
  G_ec = &ec; ghost_in_observer = 0; ghost_observations = 0;
  HARNESS_END;
  ResetForStaticFactory(&ctx, phases);
  observe();
  __CPROVER_assert(ctx.donePhases._v == 0 && ctx.totalPhases._v == phases && ctx.doneBooleans._v == 0 && ctx.totalBooleans._v == 0, "after the reset nothing is done and exactly the new operation's phases are scheduled");
  SATISFIABLE(ghost_observations >= 5);
}
void h_progress_value(void) {
  struct ExecutionContext_Impl ctx; struct ExecutionContext ec; ec.impl_ = &ctx;
  G_ec = 0;
  __CPROVER_assume(CTX_OK(ctx));
  HARNESS_END;
  double p = EC_Progress(&ec);
  __CPROVER_assert(p >= 0.0 && p <= 1.0, "Progress() is in [0,1] whenever 0 <= done <= total");
  __CPROVER_assert((p == 1.0) == (ctx.totalPhases._v == 0 || ctx.donePhases._v == ctx.totalPhases._v), "Progress() == 1 exactly when every scheduled phase is done (or none was scheduled)");
}
void h_progress_monotone(void) {
  struct ExecutionContext_Impl ctx; struct ExecutionContext ec; ec.impl_ = &ctx;
  G_ec = 0;
  __CPROVER_assume(CTX_OK(ctx));
#ifdef TOTAL_MAX
  __CPROVER_assume(ctx.totalPhases._v <= TOTAL_MAX);
#endif
  int d0 = ctx.donePhases._v, k = nondet_int();
  __CPROVER_assume(k >= 0 && (long)d0 + k <= ctx.totalPhases._v);
  HARNESS_END;
  double p0 = EC_Progress(&ec);
  ctx.donePhases._v = d0 + k;                         /* phases only ever complete (fetch_add of positive counts) */
  double p1 = EC_Progress(&ec);
  __CPROVER_assert(p1 >= p0, "with fixed totals, Progress() never decreases when more phases are done");
}
#endif
