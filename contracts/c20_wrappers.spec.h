/* C20: "Every function of the C FFI returns the value ... that the C++ call it names returns for the
 * same arguments (same argument order, units, defaults and error codes), objects are constructed in
 * exactly the caller-supplied storage".  Pairing oracle: parameter names of manifoldc.h (snake case)
 * against the C++ parameter names recorded by the generated stubs (camel case). */
#ifdef SPEC_CONTRACTS
void *ghost_placement_mem;
int ghost_placement_count;
static inline void *placement_hook(void *p) { ghost_placement_mem = p; ghost_placement_count++; return p; }
#undef PLACEMENT_NEW_HOOK
#define PLACEMENT_NEW_HOOK(p) placement_hook(p)
#endif
#ifdef SPEC_HARNESS
#define BEGIN_CASE() do { ghost_placement_count = 0; ghost_placement_mem = 0; } while (0)
#define IN_PLACE(ret, mem) __CPROVER_assert((void *)(ret) == (void *)(mem) && ghost_placement_mem == (void *)(mem) && ghost_placement_count == 1, \
                                            "the object is constructed exactly once, in the caller-supplied storage, and that storage is the returned handle")
void h_wrappers(void) {
  char mem[64];
  struct ManifoldManifold *m = (struct ManifoldManifold *)nondet_ulong(), *m2 = (struct ManifoldManifold *)nondet_ulong();
  struct ManifoldCrossSection *cs = (struct ManifoldCrossSection *)nondet_ulong();
  double a = nondet_double(), b = nondet_double(), c = nondet_double(), d = nondet_double();
  __CPROVER_assume(a == a && b == b && c == c && d == d);
  int i = nondet_int(), j = nondet_int();
  HARNESS_END;
  { BEGIN_CASE(); void *r = manifold_cylinder(mem, a, b, c, i, j);   /* (mem, height, radius_low, radius_high, circular_segments, center) */
    __CPROVER_assert(ghost_rec_Cylinder_calls == 1 && ghost_rec_Cylinder_height == a && ghost_rec_Cylinder_radiusLow == b && ghost_rec_Cylinder_radiusHigh == c &&
                     ghost_rec_Cylinder_circularSegments == i && ghost_rec_Cylinder_center == (j != 0), "manifold_cylinder -> Manifold::Cylinder(height, radiusLow, radiusHigh, circularSegments, center)");
    IN_PLACE(r, mem); }
  { BEGIN_CASE(); void *r = manifold_sphere(mem, a, i);
    __CPROVER_assert(ghost_rec_Sphere_calls == 1 && ghost_rec_Sphere_radius == a && ghost_rec_Sphere_circularSegments == i, "manifold_sphere -> Manifold::Sphere(radius, circularSegments)");
    IN_PLACE(r, mem); }
  { BEGIN_CASE(); void *r = manifold_cube(mem, a, b, c, j);
    __CPROVER_assert(ghost_rec_Cube_calls == 1 && ghost_rec_Cube_size.x == a && ghost_rec_Cube_size.y == b && ghost_rec_Cube_size.z == c && ghost_rec_Cube_center == (j != 0), "manifold_cube -> Manifold::Cube(size{x,y,z}, center)");
    IN_PLACE(r, mem); }
  { BEGIN_CASE(); void *r = manifold_translate(mem, m, a, b, c);
    __CPROVER_assert(ghost_rec_Translate_calls == 1 && ghost_rec_Translate_self == (void *)m && ghost_rec_Translate_arg0.x == a && ghost_rec_Translate_arg0.y == b && ghost_rec_Translate_arg0.z == c, "manifold_translate -> m->Translate({x,y,z})");
    IN_PLACE(r, mem); }
  { BEGIN_CASE(); void *r = manifold_scale(mem, m, a, b, c);
    __CPROVER_assert(ghost_rec_Scale_calls == 1 && ghost_rec_Scale_self == (void *)m && ghost_rec_Scale_arg0.x == a && ghost_rec_Scale_arg0.y == b && ghost_rec_Scale_arg0.z == c, "manifold_scale -> m->Scale({x,y,z})");
    IN_PLACE(r, mem); }
  { BEGIN_CASE(); void *r = manifold_rotate(mem, m, a, b, c);
    __CPROVER_assert(ghost_rec_Rotate_calls == 1 && ghost_rec_Rotate_self == (void *)m && ghost_rec_Rotate_xDegrees == a && ghost_rec_Rotate_yDegrees == b && ghost_rec_Rotate_zDegrees == c, "manifold_rotate -> m->Rotate(xDegrees, yDegrees, zDegrees)");
    IN_PLACE(r, mem); }
  { BEGIN_CASE(); int op = nondet_int(); __CPROVER_assume(0 <= op && op < 3);
    void *r = manifold_boolean(mem, m, m2, op);
    __CPROVER_assert(ghost_rec_Boolean_calls == 1 && ghost_rec_Boolean_self == (void *)m && ghost_rec_Boolean_second == (void *)m2 && ghost_rec_Boolean_op == op, "manifold_boolean(a, b, op) -> a->Boolean(*b, same op)");
    IN_PLACE(r, mem); }
  { BEGIN_CASE(); void *r = manifold_project(mem, m);
    __CPROVER_assert(ghost_rec_Project_calls == 1 && ghost_rec_Project_self == (void *)m, "manifold_project -> m->Project()");
    IN_PLACE(r, mem); }
  { BEGIN_CASE(); void *r = manifold_slice(mem, m, a);
    __CPROVER_assert(ghost_rec_Slice_calls == 1 && ghost_rec_Slice_self == (void *)m && ghost_rec_Slice_height == a, "manifold_slice -> m->Slice(height)");
    IN_PLACE(r, mem); }
  { BEGIN_CASE(); void *r = manifold_trim_by_plane(mem, m, a, b, c, d);
    __CPROVER_assert(ghost_rec_TrimByPlane_calls == 1 && ghost_rec_TrimByPlane_self == (void *)m && ghost_rec_TrimByPlane_normal.x == a && ghost_rec_TrimByPlane_normal.y == b &&
                     ghost_rec_TrimByPlane_normal.z == c && ghost_rec_TrimByPlane_originOffset == d, "manifold_trim_by_plane -> m->TrimByPlane({normal_x,normal_y,normal_z}, offset)");
    IN_PLACE(r, mem); }
  { BEGIN_CASE(); void *r = manifold_smooth_out(mem, m, a, b);
    __CPROVER_assert(ghost_rec_SmoothOut_calls == 1 && ghost_rec_SmoothOut_minSharpAngle == a && ghost_rec_SmoothOut_minSmoothness == b, "manifold_smooth_out -> m->SmoothOut(minSharpAngle, minSmoothness)");
    IN_PLACE(r, mem); }
  { BEGIN_CASE(); void *r = manifold_refine_to_length(mem, m, a);
    __CPROVER_assert(ghost_rec_RefineToLength_calls == 1 && ghost_rec_RefineToLength_arg0 == a && ghost_rec_RefineToLength_self == (void *)m, "manifold_refine_to_length -> m->RefineToLength(length)");
    IN_PLACE(r, mem); }
  { BEGIN_CASE(); int jt = nondet_int(); __CPROVER_assume(0 <= jt && jt < 4);
    void *r = manifold_cross_section_offset(mem, cs, a, jt, b, i);
    __CPROVER_assert(ghost_rec_Offset_calls == 1 && ghost_rec_Offset_self == (void *)cs && ghost_rec_Offset_delta == a && ghost_rec_Offset_jt == jt && ghost_rec_Offset_miter_limit == b &&
                     ghost_rec_Offset_circularSegments == i, "manifold_cross_section_offset -> cs->Offset(delta, jt, miter_limit, circularSegments)");
    IN_PLACE(r, mem); }
  { BEGIN_CASE(); void *r = manifold_cross_section_translate(mem, cs, a, b);
    __CPROVER_assert(ghost_rec_Translate_2_calls == 1 && ghost_rec_Translate_2_self == (void *)cs && ghost_rec_Translate_2_v.x == a && ghost_rec_Translate_2_v.y == b, "manifold_cross_section_translate -> cs->Translate({x,y})");
    IN_PLACE(r, mem); }
}
#endif
